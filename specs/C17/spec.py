"""C17 — the in-memory index answers exactly what the index files say."""
from tools.extract import Unit, Rw
from tools.krun import Harness

PROPERTY = "C17"
PRELUDE = ["../common/base.rs", "prelude.rs", "index_specs.rs"]
B = "crates/core/src/index/binarysorted.rs"
R_ATTRS = Rw("", "", count=None, kind="attrs", optional=True, why="derive/serde helper attributes removed")

UNITS = [
    Unit(name="SortedEntry", file=B, kind="type", anchor="pub(crate) struct SortedEntry {"),
    Unit(name="IndexType", file=B, kind="type", anchor="pub enum IndexType {"),
    Unit(name="EntriesVariants", file=B, kind="type", anchor="pub(crate) enum EntriesVariants {", rewrites=[R_ATTRS]),
    Unit(name="TypeIndexCollector", file=B, kind="type", anchor="pub(crate) struct TypeIndexCollector {"),
    Unit(name="IndexCollector", file=B, kind="const", anchor="pub struct IndexCollector(BlobTypeMap<TypeIndexCollector>);"),
    Unit(name="TypeIndex", file=B, kind="type", anchor="pub(crate) struct TypeIndex {"),
    Unit(name="Index", file=B, kind="const", anchor="pub struct Index(BlobTypeMap<TypeIndex>);"),

    Unit(name="indexpack_blob_type", file="crates/core/src/repofile/indexfile.rs", anchor="pub fn blob_type(&self) -> BlobType", ret_name="r",
         wrap_open="impl IndexPack {", wrap_close="}",
         rewrites=[Rw(r"(?P<r>self\.blobs)\.first\(\)\.map_or\((?P<d>[^,]+), \|(?P<v>\w+)\| (?P<b>[^;{}]*?)\)(?=\s*\}?\s*\Z)", r"(match vfirst_blob(&\g<r>) { Some(\g<v>) => \g<b>, None => \g<d> })", regex=True, optional=True,
                      why="slice::first + Option::map_or(default, closure) -> match (definitions; both bodies verbatim)")],
         functions=["repofile::indexfile::IndexPack::blob_type"],
         contract="\n    ensures /*@pack_type_is_first_blob_or_data*/ r == pack_type_spec(*self),\n"),
    Unit(name="extend", file=B, anchor="fn extend<T>(&mut self, iter: T)", within="impl Extend<IndexPack> for IndexCollector {",
         wrap_open="impl IndexCollector {", wrap_close="}",
         functions=["<index::binarysorted::IndexCollector as Extend<IndexPack>>::extend"],
         rewrites=[
             Rw(r"fn extend<T>\(&mut self, iter: T\)\s*where\s*T: IntoIterator<Item = IndexPack>,", "fn extend(&mut self, iter: Vec<IndexPack>)", regex=True, sig=True,
                why="trait impl -> inherent fn; generic IntoIterator<Item = IndexPack> instantiated with Vec<IndexPack>"),
             Rw("for p in iter {", "for p in it: iter.iter() {", why="Verus for-loop syntax (ghost iterator name); iteration by reference instead of by value"),
             Rw("for blob in &p.blobs {", "for blob in it2: p.blobs.iter() {", why="Verus for-loop syntax (ghost iterator name)"),
             Rw(r"u32::try_from\((?P<e>[^;]*?)\)\s*\.expect\(\"pack count doesn't fit into u32\"\)", r"vu32_try_from_expect(\g<e>)", regex=True,
                why="u32::try_from(..).expect(..): the panic becomes a precondition of the stub"),
         ],
         contract="""
    requires
        fed_fits(old(self).0.tree.state(), iter@, BlobType::Tree, iter@.len() as int),
        fed_fits(old(self).0.data.state(), iter@, BlobType::Data, iter@.len() as int),
        old(self).0.tree.idx_ok() && old(self).0.data.idx_ok(),
    ensures
        /*@extend_idx_ok*/ final(self).0.tree.idx_ok() && final(self).0.data.idx_ok(),
        /*@extend_tree*/ tc_matches(final(self).0.tree, fed(old(self).0.tree.state(), iter@, BlobType::Tree, iter@.len() as int), old(self).0.tree.entries.kind()),
        /*@extend_data*/ tc_matches(final(self).0.data, fed(old(self).0.data.state(), iter@, BlobType::Data, iter@.len() as int), old(self).0.data.entries.kind()),
""",
         loops={1: """
            invariant
                fed_fits(old(self).0.tree.state(), iter@, BlobType::Tree, iter@.len() as int),
                fed_fits(old(self).0.data.state(), iter@, BlobType::Data, iter@.len() as int),
                tc_matches(self.0.tree, fed(old(self).0.tree.state(), iter@, BlobType::Tree, it.index@), old(self).0.tree.entries.kind()),
                tc_matches(self.0.data, fed(old(self).0.data.state(), iter@, BlobType::Data, it.index@), old(self).0.data.entries.kind()),
                self.0.tree.idx_ok() && self.0.data.idx_ok(),
""",
                2: """
                invariant
                    blob_type == pack_type_spec(*p),
                    self.0.at(blob_type).entries.kind() == old(self).0.at(blob_type).entries.kind(),
                    self.0.at(blob_type).packs@ == pre.at(blob_type).packs@.push((p.id, size)),
                    self.0.at(blob_type).total_size == pre.at(blob_type).total_size + size,
                    self.0.at(blob_type).entries.kind() == 2 ==> self.0.at(blob_type).entries.full() == pre.at(blob_type).entries.full() + entries_of_pack(*p, idx).subrange(0, it2.index@),
                    self.0.at(blob_type).entries.kind() == 1 ==> self.0.at(blob_type).entries.ids() == pre.at(blob_type).entries.ids() + ids_of_pack(*p).subrange(0, it2.index@),
                    blob_type is Tree ==> self.0.data == pre.data,
                    blob_type is Data ==> self.0.tree == pre.tree,
                    idx == pre.at(blob_type).packs@.len(),
                    self.0.tree.idx_ok() && self.0.data.idx_ok(),
                    size == pack_size_spec(*p),
"""},
         hints=[
             ("before", "let len = p.blobs.len();", """            let ghost pre = self.0;
            proof {
                let k = it.index@;
                assert(iter@[k] == *p);
                let ft = fed(old(self).0.tree.state(), iter@, BlobType::Tree, k + 1);
                let fd = fed(old(self).0.data.state(), iter@, BlobType::Data, k + 1);
                assert(ft.packs.len() <= 0xFFFF_FFFF && ft.total <= u64::MAX);
                assert(fd.packs.len() <= 0xFFFF_FFFF && fd.total <= u64::MAX);
            }"""),
             ("after_loop", "2", """            proof {
                let k = it.index@;
                assert(entries_of_pack(*p, idx).subrange(0, p.blobs@.len() as int) =~= entries_of_pack(*p, idx));
                assert(ids_of_pack(*p).subrange(0, p.blobs@.len() as int) =~= ids_of_pack(*p));
                let ft = fed(old(self).0.tree.state(), iter@, BlobType::Tree, k + 1);
                let fd = fed(old(self).0.data.state(), iter@, BlobType::Data, k + 1);
                assert(tc_matches(self.0.tree, ft, old(self).0.tree.entries.kind()));
                assert(tc_matches(self.0.data, fd, old(self).0.data.entries.kind()));
            }"""),
             ("before", "let be = SortedEntry {", """                proof {
                    let j = it2.index@;
                    let e = SortedEntry { id: blob.id, pack_idx: idx, location: blob.location };
                    assert(entries_of_pack(*p, idx)[j] == e);
                    assert(entries_of_pack(*p, idx).subrange(0, j + 1) =~= entries_of_pack(*p, idx).subrange(0, j).push(e));
                    assert(ids_of_pack(*p).subrange(0, j + 1) =~= ids_of_pack(*p).subrange(0, j).push(blob.id));
                    let af = pre.at(blob_type).entries.full();
                    let ai = pre.at(blob_type).entries.ids();
                    assert((af + entries_of_pack(*p, idx).subrange(0, j)).push(e) =~= af + entries_of_pack(*p, idx).subrange(0, j + 1));
                    assert((ai + ids_of_pack(*p).subrange(0, j)).push(blob.id) =~= ai + ids_of_pack(*p).subrange(0, j + 1));
                }"""),
         ],
         ),
]

UNITS += [
    Unit(name="collector_new", file=B, anchor="pub fn new(tpe: IndexType) -> Self", within="impl IndexCollector {", ret_name="r",
         wrap_open="impl IndexCollector {", wrap_close="}",
         functions=["index::binarysorted::IndexCollector::new"],
         rewrites=[Rw("Self::default()", "vcollector_default()", why="#[derive(Default)] (dropped by extraction) -> hand-written empty constructor")],
         contract="""
    ensures
        /*@new_tree_full*/ r.0.tree.entries.kind() == 2 && r.0.tree.entries.full().len() == 0 && r.0.tree.packs@.len() == 0 && r.0.tree.total_size == 0,
        /*@new_data_mode*/ r.0.data.entries.kind() == (match tpe { IndexType::OnlyTrees => 0int, IndexType::DataIds => 1int, IndexType::Full => 2int }),
        /*@new_data_empty*/ r.0.data.entries.full().len() == 0 && r.0.data.entries.ids().len() == 0 && r.0.data.packs@.len() == 0 && r.0.data.total_size == 0,
"""),
    Unit(name="into_index_slot", file=B, kind="block", within="pub fn into_index(self) -> Index",
         anchor="match &mut tc.entries {", block_end="}))",
         block_sig="fn into_index_slot(mut tc: TypeIndexCollector) -> (r: TypeIndex)", block_tail="",
         hints=[
             ("before", "match &mut tc.entries {", "            let ghost full0 = tc.entries.full();"),
             ("before", "TypeIndex {", """            proof {
                let full1 = tc.entries.full();
                full0.to_multiset_ensures();
                full1.to_multiset_ensures();
                assert forall|i: int| 0 <= i < full1.len() implies (#[trigger] full1[i]).pack_idx < tc.packs@.len() by {
                    let e = full1[i];
                    assert(full1.contains(e));
                    assert(full0.to_multiset().count(e) > 0);
                    assert(full0.contains(e));
                    let j = choose|j: int| 0 <= j < full0.len() && full0[j] == e;
                    assert(full0[j].pack_idx < tc.packs@.len());
                }
            }"""),
         ],
         functions=["index::binarysorted::IndexCollector::into_index (body of the per-type closure; EnumMap::map applying it to both slots is assumed)"],
         rewrites=[
             Rw("ids.par_sort_unstable()", "vsort_ids(ids)", why="rayon par_sort_unstable: permutation + sorted (assumed)"),
             Rw("entries.par_sort_unstable_by_key(|e| e.id)", "vsort_entries_by_id(entries)", why="rayon par_sort_unstable_by_key(|e| e.id): permutation + sorted by id (assumed)"),
             Rw("tc.packs.into_iter().map(|(id, _)| id).collect()", "vproject_pack_ids(tc.packs)", why="iterator map/collect projecting the pack ids"),
         ],
         contract="""
    requires
        tc.idx_ok(),
    ensures
        /*@into_index_wf*/ r.wf(),
        /*@into_index_packs*/ r.packs@.len() == tc.packs@.len() && forall|i: int| 0 <= i < tc.packs@.len() ==> r.packs@[i] == tc.packs@[i].0,
        /*@into_index_total*/ r.total_size == tc.total_size,
        /*@into_index_kind*/ r.entries.kind() == tc.entries.kind(),
        /*@into_index_full_sorted_perm*/ entries_sorted(r.entries.full()) && r.entries.full().to_multiset() == tc.entries.full().to_multiset(),
        /*@into_index_ids_sorted_perm*/ ids_sorted(r.entries.ids()) && r.entries.ids().to_multiset() == tc.entries.ids().to_multiset(),
"""),
    Unit(name="get_id", file=B, anchor="fn get_id(&self, blob_type: BlobType, id: &BlobId) -> Option<IndexEntry>", within="impl ReadIndex for Index {", ret_name="r",
         wrap_open="impl Index {", wrap_close="}",
         functions=["<index::binarysorted::Index as ReadIndex>::get_id"],
         rewrites=[Rw(r"vec\.binary_search_by_key\(id, \|e\| e\.id\)", "vsearch_entries(vec, id)", regex=True, count=None,
                      why="slice::binary_search_by_key with the key closure |e| e.id (assumed std contract incl. REQUIRES sorted)"),
                   Rw(r"vsearch_entries\(vec, id\)\.ok\(\)\.map\(\|index\| \{(?P<body>.*)\}\)",
                      r"match vsearch_entries(vec, id).ok() { Some(index) => Some({\g<body>}), None => None }", regex=True,
                      why="Option::map with a closure literal replaced by its definition (match), body verbatim")],
         contract="""
    requires
        self.wf(),
    ensures
        /*@get_id_reduced_modes*/ self.0.at(blob_type).entries.kind() != 2 ==> r is None,
        /*@get_id_some_is_a_listing*/ r matches Some(e) ==> exists|i: int| 0 <= i < self.0.at(blob_type).entries.full().len()
              && (#[trigger] self.0.at(blob_type).entries.full()[i]).id == *id
              && e.pack == self.0.at(blob_type).packs@[self.0.at(blob_type).entries.full()[i].pack_idx as int]
              && e.location == self.0.at(blob_type).entries.full()[i].location
              && e.blob_type == blob_type,
        /*@get_id_none_means_absent*/ r is None && self.0.at(blob_type).entries.kind() == 2 ==>
              forall|i: int| 0 <= i < self.0.at(blob_type).entries.full().len() ==> (#[trigger] self.0.at(blob_type).entries.full()[i]).id != *id,
"""),
    Unit(name="has", file=B, anchor="fn has(&self, blob_type: BlobType, id: &BlobId) -> bool", within="impl ReadIndex for Index {", ret_name="r",
         wrap_open="impl Index {", wrap_close="}",
         functions=["<index::binarysorted::Index as ReadIndex>::has"],
         rewrites=[Rw("entries.binary_search_by_key(id, |e| e.id)", "vsearch_entries(entries, id)", why="slice::binary_search_by_key (assumed std contract incl. REQUIRES sorted)"),
                   Rw("ids.binary_search(id)", "vsearch_ids(ids, id)", why="slice::binary_search (assumed std contract incl. REQUIRES sorted)")],
         contract="""
    requires
        self.wf(),
    ensures
        /*@has_full*/ self.0.at(blob_type).entries.kind() == 2 ==> r == exists|i: int| 0 <= i < self.0.at(blob_type).entries.full().len() && (#[trigger] self.0.at(blob_type).entries.full()[i]).id == *id,
        /*@has_ids*/ self.0.at(blob_type).entries.kind() == 1 ==> r == exists|i: int| 0 <= i < self.0.at(blob_type).entries.ids().len() && #[trigger] self.0.at(blob_type).entries.ids()[i] == *id,
        /*@has_none*/ self.0.at(blob_type).entries.kind() == 0 ==> !r,
"""),
    Unit(name="total_size", file=B, anchor="fn total_size(&self, blob_type: BlobType) -> u64", within="impl ReadIndex for Index {", ret_name="r",
         wrap_open="impl Index {", wrap_close="}",
         functions=["<index::binarysorted::Index as ReadIndex>::total_size"],
         contract="\n    ensures /*@total_size*/ r == self.0.at(blob_type).total_size,\n"),
]

IXF = "crates/core/src/index.rs"
WI = dict(wrap_open="impl Index {", wrap_close="}")
def typed(name, idt, conv, tpe, kind):
    if kind == "get":
        contract = """
    requires self.wf(),
    ensures
        /*@%s_looks_up_under_type_%s*/ r matches Some(e) ==> e.blob_type == BlobType::%s && exists|i: int| 0 <= i < self.0.at(BlobType::%s).entries.full().len()
              && (#[trigger] self.0.at(BlobType::%s).entries.full()[i]).id == BlobId(id.0)
              && e.pack == self.0.at(BlobType::%s).packs@[self.0.at(BlobType::%s).entries.full()[i].pack_idx as int],
        /*@%s_none_means_absent_under_type*/ r is None && self.0.at(BlobType::%s).entries.kind() == 2 ==>
              forall|i: int| 0 <= i < self.0.at(BlobType::%s).entries.full().len() ==> (#[trigger] self.0.at(BlobType::%s).entries.full()[i]).id != BlobId(id.0),
""" % (name, tpe, tpe, tpe, tpe, tpe, tpe, name, tpe, tpe, tpe)
        ret = "Option<IndexEntry>"
    else:
        contract = """
    requires self.wf(),
    ensures
        /*@%s_is_membership_under_type_%s*/ self.0.at(BlobType::%s).entries.kind() == 2 ==> r == exists|i: int| 0 <= i < self.0.at(BlobType::%s).entries.full().len() && (#[trigger] self.0.at(BlobType::%s).entries.full()[i]).id == BlobId(id.0),
        self.0.at(BlobType::%s).entries.kind() == 1 ==> r == exists|i: int| 0 <= i < self.0.at(BlobType::%s).entries.ids().len() && #[trigger] self.0.at(BlobType::%s).entries.ids()[i] == BlobId(id.0),
""" % (name, tpe, tpe, tpe, tpe, tpe, tpe, tpe)
        ret = "bool"
    return Unit(name="ri_" + name, file=IXF, anchor="fn %s(&self, id: &%s) -> %s" % (name, idt, ret), within="pub trait ReadIndex {", ret_name="r", **WI,
                functions=["index::ReadIndex::%s (default method, instantiated for binarysorted::Index)" % name],
                rewrites=[Rw("&BlobId::from(**id)", "&%s(id)" % conv, why="Id newtype conversion")],
                contract=contract)
UNITS += [
    typed("get_tree", "TreeId", "vblobid_of_tree", "Tree", "get"),
    typed("get_data", "DataId", "vblobid_of_data", "Data", "get"),
    typed("has_tree", "TreeId", "vblobid_of_tree", "Tree", "has"),
    typed("has_data", "DataId", "vblobid_of_data", "Data", "has"),
]

# PackIndexes::next, second half: collecting the blobs of the current pack (the first half -- a loop with
# `break (pack_idx, idx)` holding two &mut into self.idx -- is outside Verus; its result is the pair of parameters here)
UNITS += [
    Unit(name="pack_indexes_collect", file=B, kind="block", within="fn next(&mut self) -> Option<Self::Item> {",
         anchor="let mut pack = IndexPack {", block_end="@fn_end",
         wrap_open="impl PackIndexesV {", wrap_close="}",
         block_sig="fn pack_indexes_collect(&self, pack_idx: &mut u32, idx: &mut usize) -> (r: Option<IndexPack>)",
         block_tail="",
         functions=["<index::binarysorted::PackIndexes as Iterator>::next (collecting the blobs of the current pack)"],
         rewrites=[
             Rw(r"IndexPack \{\s*id: (?P<e>[^,]*?),\s*\.\.Default::default\(\)\s*\}", r"vindexpack_with_id(\g<e>)", regex=True,
                why="struct update from Default::default() -> stub: this id, no blobs (derived Default ASSUMED to give the empty pack)"),
         ],
         contract="""
    requires
        // what the first half of next() and Index::into_iter establish: the current pack exists, the entries are grouped by
        // ascending pack number and *idx stands at the first entry that does not belong to an earlier pack
        *old(pack_idx) < self.c.0.at(self.tpe).packs@.len(), *old(pack_idx) < u32::MAX,
        self.c.0.at(self.tpe).entries.kind() == 2 ==> {
            let es = self.c.0.at(self.tpe).entries.full();
            &&& *old(idx) <= es.len()
            &&& forall|i: int, j: int| 0 <= i <= j < es.len() ==> (#[trigger] es[i]).pack_idx <= (#[trigger] es[j]).pack_idx
            &&& forall|i: int| 0 <= i < *old(idx) ==> (#[trigger] es[i]).pack_idx < *old(pack_idx)
            &&& forall|i: int| *old(idx) <= i < es.len() ==> (#[trigger] es[i]).pack_idx >= *old(pack_idx)
        },
    ensures
        /*@yields_the_current_pack*/ r matches Some(p) && p.id == self.c.0.at(self.tpe).packs@[*old(pack_idx) as int] && *final(pack_idx) == *old(pack_idx) + 1,
        // exactly the entries the index lists under this pack's number, in order, typed with the iterator's type
        /*@pack_comes_back_with_exactly_its_blobs*/ self.c.0.at(self.tpe).entries.kind() == 2 ==> {
            let es = self.c.0.at(self.tpe).entries.full();
            let p = r->Some_0;
            &&& *final(idx) == *old(idx) + p.blobs@.len() && *final(idx) <= es.len()
            &&& forall|j: int| 0 <= j < p.blobs@.len() ==> (#[trigger] p.blobs@[j]) == (IndexBlob { id: es[*old(idx) + j].id, tpe: self.tpe, location: es[*old(idx) + j].location })
            &&& forall|i: int| 0 <= i < es.len() ==> ((#[trigger] es[i]).pack_idx == *old(pack_idx) <==> *old(idx) <= i < *final(idx))
            // and the next call starts from the same kind of state
            &&& forall|i: int| 0 <= i < *final(idx) ==> (#[trigger] es[i]).pack_idx < *final(pack_idx)
            &&& forall|i: int| *final(idx) <= i < es.len() ==> (#[trigger] es[i]).pack_idx >= *final(pack_idx)
        },
        /*@ids_only_index_yields_no_blobs*/ self.c.0.at(self.tpe).entries.kind() != 2 ==> r->Some_0.blobs@.len() == 0 && *final(idx) == *old(idx),
""",
         loops={1: """
                invariant
                    self.c.0.at(self.tpe).entries.kind() == 2 && entries@ == self.c.0.at(self.tpe).entries.full(),
                    *pack_idx == *old(pack_idx), *old(idx) <= *idx <= entries@.len(),
                    pack.id == self.c.0.at(self.tpe).packs@[*old(pack_idx) as int],
                    pack.blobs@.len() == *idx - *old(idx),
                    forall|j: int| 0 <= j < pack.blobs@.len() ==> (#[trigger] pack.blobs@[j]) == (IndexBlob { id: entries@[*old(idx) + j].id, tpe: self.tpe, location: entries@[*old(idx) + j].location }),
                    forall|i: int| *old(idx) <= i < *idx ==> (#[trigger] entries@[i]).pack_idx == *pack_idx,
                    forall|i: int| *old(idx) <= i < entries@.len() ==> (#[trigger] entries@[i]).pack_idx >= *pack_idx,
                    forall|i: int, j: int| 0 <= i <= j < entries@.len() ==> (#[trigger] entries@[i]).pack_idx <= (#[trigger] entries@[j]).pack_idx,
                decreases entries@.len() - *idx,
"""},
         ),
]

KANI = [
    Harness("index::binarysorted::verif_kani::c17_bounded_pack_indexes_next", kind="bounded",
            bound="iterator state built directly: tree packs {2 blobs, 0 blobs}, data packs {1 blob}; ids/offsets/lengths symbolic",
            functions=["<index::binarysorted::PackIndexes as Iterator>::next (bounded)"], timeout=900),
]
KANI_UNWIND = 6
# how the in-memory index is fed from the index files (only the live packs) is a unit of C05's spec
SATELLITES = [("C05", ["indexpack_blob_type", "gi_new_from_index", "gi_new_from_collector"])]

META = {"not_covered": [
    "PackIndexes::next, first half (loop with `break (pack_idx, idx)` holding two &mut into self.idx: 'complex break expressions' unsupported) and Index::into_iter (rayon sort) - bounded Kani stand-in only; the second half (collecting the pack's blobs) is the Verus unit pack_indexes_collect whose precondition states what the first half and the sort leave",
    "GlobalIndex::new_from_collector is a unit of C05 (gi_new_from_collector: exactly the live packs are fed)",
    "EnumMap::map applying the into_index closure to both slots (assumed)",
    "serde of index files",
]}
