// ===== C18: stubs and specification for ConfigOptions::apply =====
pub struct RepositoryId { pub _opaque: u64 }

// RangeInclusive<T> (std) as a two-field struct; `contains` keeps its name, so the call sites are verbatim
pub struct VRangeU32 { pub lo: u32, pub hi: u32 }
pub struct VRangeI32 { pub lo: i32, pub hi: i32 }
impl VRangeU32 {
    pub fn contains(&self, x: &u32) -> (r: bool) ensures r == (self.lo <= *x <= self.hi), { self.lo <= *x && *x <= self.hi }
}
impl VRangeI32 {
    pub fn contains(&self, x: &i32) -> (r: bool) ensures r == (self.lo <= *x <= self.hi), { self.lo <= *x && *x <= self.hi }
}

// zstd::compression_level_range(): FFI, ASSUMED to return some fixed inclusive range
pub uninterp spec fn ZSTD_LO() -> i32;
pub uninterp spec fn ZSTD_HI() -> i32;
#[verifier::external_body]
pub fn vzstd_compression_level_range() -> (r: VRangeI32)
    ensures r.lo == ZSTD_LO(), r.hi == ZSTD_HI(),
{ unimplemented!() }

// u64 -> T TryInto with the size-too-large error mapping
pub trait VFromU64: Sized { // keep-vis
    spec fn fits(x: u64) -> bool;
    spec fn conv(x: u64) -> Self;
}
impl VFromU64 for usize {
    open spec fn fits(x: u64) -> bool { true }
    open spec fn conv(x: u64) -> usize { x as usize }
}
impl VFromU64 for u32 {
    open spec fn fits(x: u64) -> bool { x <= 0xFFFF_FFFF }
    open spec fn conv(x: u64) -> u32 { x as u32 }
}
#[verifier::external_body]
pub fn vtry_from_u64<T: VFromU64>(x: u64) -> (r: Result<T, Box<RusticError>>)
    ensures
        r is Ok <==> T::fits(x),
        r matches Ok(v) ==> v == T::conv(x),
{ unimplemented!() }

pub fn vchunker_or_default(c: Option<Chunker>) -> (r: Chunker)
    ensures r == (match c { Some(x) => x, None => Chunker::Rabin }),
{
    match c { Some(x) => x, None => Chunker::Rabin }
}

pub open spec fn rabin_params_ok(size: usize, min: usize, max: usize) -> bool {
    &&& size != 0 && (size & ((size - 1) as usize)) == 0
    &&& 1 <= min <= size <= max
}

pub open spec fn opt_u32(o: Option<ByteSize>, old: Option<u32>) -> Option<u32> {
    match o { Some(s) => Some(s.0 as u32), None => old }
}
pub open spec fn opt_usize(o: Option<ByteSize>, old: Option<usize>) -> Option<usize> {
    match o { Some(s) => Some(s.0 as usize), None => old }
}
pub open spec fn opt_set<T>(o: Option<T>, old: Option<T>) -> Option<T> {
    match o { Some(s) => Some(s), None => old }
}

impl ConfigFile {
    spec fn eff_chunker(&self) -> Chunker { match self.chunker { Some(c) => c, None => Chunker::Rabin } }
    spec fn eff_chunk_size(&self) -> usize { match self.chunk_size { Some(c) => c, None => constants::DEFAULT_CHUNK_SIZE } }
    spec fn eff_chunk_min_size(&self) -> usize { match self.chunk_min_size { Some(c) => c, None => constants::DEFAULT_CHUNK_MIN_SIZE } }
    spec fn eff_chunk_max_size(&self) -> usize { match self.chunk_max_size { Some(c) => c, None => constants::DEFAULT_CHUNK_MAX_SIZE } }
}

// after-state of each segment of ConfigOptions::apply as a function of the before-state: exactly the
// named settings change (struct update syntax = everything else equal)
impl ConfigOptions {
    spec fn post0(&self, a: ConfigFile) -> ConfigFile {
        ConfigFile { version: (match self.set_version { Some(v) => v, None => a.version }), ..a }
    }
    spec fn post1(&self, a: ConfigFile) -> ConfigFile {
        ConfigFile {
            chunker: opt_set(self.set_chunker, a.chunker),
            chunk_size: opt_usize(self.set_chunk_size, a.chunk_size),
            chunk_min_size: opt_usize(self.set_chunk_min_size, a.chunk_min_size),
            chunk_max_size: opt_usize(self.set_chunk_max_size, a.chunk_max_size),
            ..a
        }
    }
    spec fn post2(&self, a: ConfigFile) -> ConfigFile {
        ConfigFile {
            compression: opt_set(self.set_compression, a.compression),
            append_only: opt_set(self.set_append_only, a.append_only),
            ..a
        }
    }
    spec fn post3(&self, a: ConfigFile) -> ConfigFile {
        ConfigFile {
            treepack_size: opt_u32(self.set_treepack_size, a.treepack_size),
            treepack_growfactor: opt_set(self.set_treepack_growfactor, a.treepack_growfactor),
            treepack_size_limit: opt_u32(self.set_treepack_size_limit, a.treepack_size_limit),
            datapack_size: opt_u32(self.set_datapack_size, a.datapack_size),
            datapack_growfactor: opt_set(self.set_datapack_growfactor, a.datapack_growfactor),
            datapack_size_limit: opt_u32(self.set_datapack_size_limit, a.datapack_size_limit),
            ..a
        }
    }
    spec fn post4(&self, a: ConfigFile) -> ConfigFile {
        ConfigFile {
            min_packsize_tolerate_percent: opt_set(self.set_min_packsize_tolerate_percent, a.min_packsize_tolerate_percent),
            max_packsize_tolerate_percent: opt_set(self.set_max_packsize_tolerate_percent, a.max_packsize_tolerate_percent),
            extra_verify: opt_set(self.set_extra_verify, a.extra_verify),
            ..a
        }
    }
}

// ---- apply_config: the repository as seen by the command ----
// `accepted(c)`: c is the result of a successful ConfigOptions::apply -- established ONLY by vapply's Ok.
pub uninterp spec fn accepted(c: ConfigFile) -> bool;
pub struct VKey { pub _opaque: u64 }
pub struct VDbe { pub k: VKey }
impl VDbe { pub fn key(&self) -> (r: &VKey) { &self.k } }
pub struct VRepo { pub cfg: ConfigFile, pub be: VDbe }
impl VRepo {
    pub fn config(&self) -> (r: &ConfigFile) ensures *r == self.cfg, { &self.cfg }
    pub fn dbe(&self) -> (r: &VDbe) { &self.be }
    #[verifier::external_body]
    pub fn set_config(&mut self, c: ConfigFile) ensures final(self).cfg == c, { unimplemented!() }
}
#[verifier::external_body]
pub fn vclone_config(c: &ConfigFile) -> (r: ConfigFile) ensures r == *c, { unimplemented!() }
#[verifier::external_body]
pub fn vconfig_eq(a: &ConfigFile, b: &ConfigFile) -> (r: bool) ensures r == (*a == *b), { unimplemented!() }
// ConfigOptions::apply seen through its contract (proved above as unit `apply`)
#[verifier::external_body]
pub fn vapply(opts: &ConfigOptions, config: &mut ConfigFile) -> (r: RusticResult<()>)
    ensures r is Ok ==> accepted(*final(config)),
{ unimplemented!() }
// save_config: writes the config file(s) to storage.  PRECONDITION: only an accepted configuration is ever stored.
#[verifier::external_body]
pub fn save_config(repo: &VRepo, new_config: ConfigFile, key: &VKey) -> (r: RusticResult<()>)
    requires accepted(new_config),
{ unimplemented!() }

// ---- ChunkIter::from_config: an accepted configuration always yields a well-formed chunker (C18 -> C06) ----
// what ConfigOptions::apply guarantees about the chunker settings of every configuration it accepts
pub open spec fn chunker_config_ok(c: ConfigFile) -> bool {
    &&& (c.eff_chunker() is Rabin ==> rabin_params_ok(c.eff_chunk_size(), c.eff_chunk_min_size(), c.eff_chunk_max_size()))
    &&& (c.eff_chunker() is FixedSize ==> c.eff_chunk_size() >= 1)
}
impl ConfigFile {
    // hex parse of the stored polynomial (u64::from_str_radix): uninterpreted
    pub uninterp spec fn poly_ok(&self) -> bool;
    #[verifier::external_body]
    pub fn poly(&self) -> (r: RusticResult<u64>) ensures r is Ok <==> self.poly_ok(), { unimplemented!() }
}
pub struct Rabin64 { pub _opaque: u64 }
impl Rabin64 {
    #[verifier::external_body]
    pub fn new_with_polynom(window_size_nb_bits: u32, p: &u64) -> Rabin64 { unimplemented!() }
}
// the two chunkers with the contracts PROVED for them under C06 (rabin_new, fixed_new), restated here as stubs
pub struct RabinChunkIter<R> { pub size: usize, pub min_size: usize, pub max_size: usize, pub reader: R }
impl<R> RabinChunkIter<R> {
    #[verifier::external_body]
    pub fn new(rabin: Rabin64, chunk_size: usize, chunk_min_size: usize, chunk_max_size: usize, reader: R, size_hint: usize) -> (r: RusticResult<Self>)
        ensures r.is_ok() <==> rabin_params_ok(chunk_size, chunk_min_size, chunk_max_size),
                r matches Ok(c) ==> c.size == chunk_size && c.min_size == chunk_min_size && c.max_size == chunk_max_size && c.reader == reader,
    { unimplemented!() }
}
pub struct FixedSizeChunkIter<R> { pub size: usize, pub reader: R }
impl<R> FixedSizeChunkIter<R> {
    // OBLIGATION at the call site: the fixed-size chunker is well formed only for a positive size (C06: wf needs 1 <= size)
    #[verifier::external_body]
    pub fn new(size: usize, reader: R, size_hint: usize) -> (c: Self)
        requires size >= 1,
        ensures c.size == size && c.reader == reader,
    { unimplemented!() }
}

// ---- init: nothing is created before the configuration was accepted ----
pub struct CredentialsR { pub _opaque: u64 }
pub struct KeyOptionsR { pub _opaque: u64 }
pub struct KeyR { pub _opaque: u64 }
pub struct KeyIdR { pub _opaque: u64 }
pub struct RepositoryIdR { pub _opaque: u64 }
pub struct VInitRepo { pub hot: bool }
impl VInitRepo {
    pub fn vhas_hot(&self) -> (r: bool) ensures r == self.hot, { self.hot }
}
#[verifier::external_body]
pub fn vrandom_repo_id() -> RepositoryIdR { unimplemented!() }
#[verifier::external_body]
pub fn vrandom_poly() -> RusticResult<u64> { unimplemented!() }
// ConfigFile::new(version, id, poly): a fresh configuration with nothing named yet
#[verifier::external_body]
pub fn vconfigfile_new(version: u32, id: RepositoryIdR, poly: u64) -> ConfigFile { unimplemented!() }
// init_with_config: creates the backend, writes the key file and the config file.  PRECONDITION: the configuration is an accepted one
#[verifier::external_body]
pub fn vinit_with_config(repo: &VInitRepo, credentials: &CredentialsR, key_opts: &KeyOptionsR, config: &ConfigFile) -> (r: RusticResult<(KeyR, Option<KeyIdR>)>)
    requires accepted(*config),
{ unimplemented!() }
