impl PackSizer {
    // the target pack size as a mathematical function of the sizer's fields (no machine arithmetic)
    spec fn raw_target(&self) -> int {
        if self.grow_factor == 0 { self.default_size as int }
        else { isqrt_spec(self.current_size) as int * self.grow_factor as int + self.default_size as int }
    }
    spec fn target(&self) -> u32 {
        let t = self.raw_target();
        let t = if t < self.size_limit as int { t } else { self.size_limit as int };
        let t = if t < MAX_SIZE_SPEC() as int { t } else { MAX_SIZE_SPEC() as int };
        t as u32
    }
}
