// ===== C18 prelude =====
#[derive(Clone, Copy)]
pub struct ByteSize(pub u64);
impl ByteSize {
    pub fn as_u64(&self) -> (r: u64) ensures r == self.0, { self.0 }
}

// integer_sqrt crate (third party), ASSUMED contract: floor square root
pub uninterp spec fn isqrt_spec(x: u64) -> u64;
pub open spec fn is_isqrt(x: u64, r: u64) -> bool { r * r <= x && x < (r + 1) * (r + 1) }

#[verifier::external_body]
pub fn vinteger_sqrt(x: u64) -> (r: u64)
    ensures r == isqrt_spec(x), is_isqrt(x, r), r < 0x1_0000_0000,
{ unimplemented!() }

pub enum BlobType { Tree, Data }

// what the property demands of every accepted PackSizer: the target size is defined (no panic) and
// never exceeds the configured limit nor the absolute maximum
pub open spec fn MAX_SIZE_SPEC() -> u32 { 4273995776u32 }  // 4076 MiB
