"""C18 — accepted configurations work; refused or unnamed settings change nothing."""
from tools.extract import Unit, Rw
from tools.krun import Harness

PROPERTY = "C18"
PRELUDE = ["../common/base.rs", "prelude.rs", "packsizer_specs.rs", "config_specs.rs"]
PK = "crates/core/src/blob/packer.rs"
PR = "crates/core/src/commands/prune.rs"
CF = "crates/core/src/repofile/configfile.rs"
CO = "crates/core/src/commands/config.rs"

R_ERR = Rw("", "verr()", count=None, kind="err", optional=True, why="RusticError construction (kind/message/context dropped)")
R_ISQRT = Rw("self.current_size.integer_sqrt()", "vinteger_sqrt(self.current_size)", why="integer_sqrt crate (assumed floor-sqrt contract)")

UNITS = [
    Unit(name="packer_constants", file=PK, kind="type", anchor="pub(super) mod constants {",
         rewrites=[Rw("pub(super)", "pub", count=None, why="visibility only"),
                   Rw("mod constants", "mod packer_constants", why="name disambiguation: two `constants` modules in one file"),
                   Rw("    use std::time::Duration;\n", "\n", why="unused in the verified units"),
                   Rw(r"(\s*///[^\n]*\n)*\s*pub const MAX_AGE[^;]*;", "", regex=True, why="Duration constant not used by the verified units")]),
    Unit(name="PackSizer", file=PK, kind="type", anchor="pub struct PackSizer {"),
    Unit(name="packsizer_fixed", file=PK, anchor="pub fn fixed(size: u32) -> Self", ret_name="r",
         wrap_open="impl PackSizer {", wrap_close="}",
         functions=["blob::packer::PackSizer::fixed"],
         contract="\n    ensures /*@fixed_target*/ r.target() == (if size < MAX_SIZE_SPEC() { size } else { MAX_SIZE_SPEC() }),\n"),
    Unit(name="pack_size", file=PK, anchor="pub fn pack_size(&self) -> u32", ret_name="r",
         wrap_open="impl PackSizer {", wrap_close="}",
         functions=["blob::packer::PackSizer::pack_size"],
         rewrites=[R_ISQRT, Rw("constants::MAX_SIZE", "packer_constants::MAX_SIZE", why="name disambiguation (see packer_constants)")],
         contract="""
    ensures
        /*@pack_size_bounded*/ r <= self.size_limit && r <= MAX_SIZE_SPEC(),
        /*@pack_size_is_target*/ r == self.target(),
"""),
    Unit(name="is_too_small", file=PK, anchor="pub fn is_too_small(&self, size: u32) -> bool", ret_name="r",
         wrap_open="impl PackSizer {", wrap_close="}",
         functions=["blob::packer::PackSizer::is_too_small"],
         hints=[("before", "u64::from(size) * 100", "        assert(target_size as int * self.min_packsize_tolerate_percent as int <= 0xFFFF_FFFF * 0xFFFF_FFFF) by (nonlinear_arith)\n            requires 0 <= target_size <= 0xFFFF_FFFF, 0 <= self.min_packsize_tolerate_percent <= 0xFFFF_FFFF;")],
         contract="\n    ensures /*@too_small_def*/ r == (size as int * 100 < self.target() as int * self.min_packsize_tolerate_percent as int),\n"),
    Unit(name="is_too_large", file=PK, anchor="pub fn is_too_large(&self, size: u32) -> bool", ret_name="r",
         wrap_open="impl PackSizer {", wrap_close="}",
         functions=["blob::packer::PackSizer::is_too_large"],
         hints=[("before", "u64::from(size) * 100", "        assert(target_size as int * self.max_packsize_tolerate_percent as int <= 0xFFFF_FFFF * 0xFFFF_FFFF) by (nonlinear_arith)\n            requires 0 <= target_size <= 0xFFFF_FFFF, 0 <= self.max_packsize_tolerate_percent <= 0xFFFF_FFFF;")],
         contract="\n    ensures /*@too_large_def*/ r == (size as int * 100 > self.target() as int * self.max_packsize_tolerate_percent as int),\n"),
    Unit(name="size_ok", file=PK, anchor="pub fn size_ok(&self, size: u32) -> bool", ret_name="r",
         wrap_open="impl PackSizer {", wrap_close="}",
         functions=["blob::packer::PackSizer::size_ok"],
         contract="""
    ensures /*@size_ok_def*/ r == (size as int * 100 >= self.target() as int * self.min_packsize_tolerate_percent as int
                               && size as int * 100 <= self.target() as int * self.max_packsize_tolerate_percent as int),
"""),
]

UNITS += [
    Unit(name="LimitOption", file=PR, kind="type", anchor="pub enum LimitOption {"),
    Unit(name="decide_repack_limits", file=PR, kind="block", within="fn decide_repack(",
         anchor="let max_unused = match (repack_uncompressed, max_unused) {",
         block_end="self.repack_candidates.sort_unstable_by_key(|rc| rc.0);",
         block_sig="fn decide_repack_limits(repack_uncompressed: bool, max_unused: &LimitOption, max_repack: &LimitOption, size_used: u64, size_total: u64) -> (r: (u64, u64))",
         block_tail="        (max_unused, max_repack)",
         functions=["commands::prune::PrunePlan::decide_repack (limit arithmetic block: statements from `let max_unused` up to the candidate sort)"],
         rewrites=[
             Rw("self.stats.size_sum().used", "size_used", why="statement-block unit: accessor on self becomes a parameter"),
             Rw("self.stats.size_sum().total()", "size_total", why="statement-block unit: accessor on self becomes a parameter"),
         ],
         contract="""
    ensures
        /*@repack_uncompressed_zero*/ repack_uncompressed ==> r.0 == 0,
        /*@unused_unlimited*/ !repack_uncompressed && max_unused is Unlimited ==> r.0 == u64::MAX,
        /*@unused_size*/ !repack_uncompressed ==> (max_unused matches LimitOption::Size(s) ==> r.0 == s.0),
        /*@unused_percentage*/ !repack_uncompressed ==> (max_unused matches LimitOption::Percentage(p) ==>
            (if p >= 100 { r.0 == u64::MAX }
             else if p as int * size_used as int <= u64::MAX as int { r.0 as int == (p as int * size_used as int) / (100 - p as int) }
             else { true })),
        /*@repack_unlimited*/ max_repack is Unlimited ==> r.1 == u64::MAX,
        /*@repack_size*/ max_repack matches LimitOption::Size(s) ==> r.1 == s.0,
        /*@repack_percentage*/ max_repack matches LimitOption::Percentage(p) ==>
            (p as int * size_total as int <= u64::MAX as int ==> r.1 as int == (p as int * size_total as int) / 100),
"""),
]

R_ATTRS = Rw("", "", count=None, kind="attrs", optional=True, why="serde/clap/setters helper attributes removed (inert without their proc macros)")
RB = "crates/core/src/chunker/rabin.rs"


def acc(name, ret, spec):
    return Unit(name="cfg_" + name, file=CF, anchor="pub fn %s(&self) -> %s" % (name, ret), ret_name="r",
                wrap_open="impl ConfigFile {", wrap_close="}",
                functions=["repofile::configfile::ConfigFile::%s" % name],
                contract="\n    ensures /*@cfg_%s*/ r == self.%s(),\n" % (name, spec))


UNITS += [
    Unit(name="configfile_constants", file=CF, kind="type", anchor="pub(super) mod constants {",
         rewrites=[Rw("pub(super)", "pub", count=None, why="visibility only")],
         wrap_open="", ),
    Unit(name="Chunker", file=CF, kind="type", anchor="pub enum Chunker {", attrs="#[derive(Clone, Copy)]",
         rewrites=[R_ATTRS]),
    Unit(name="ConfigFile", file=CF, kind="type", anchor="pub struct ConfigFile {", rewrites=[R_ATTRS]),
    Unit(name="ConfigOptions", file=CO, kind="type", anchor="pub struct ConfigOptions {", rewrites=[R_ATTRS]),
    Unit(name="cfg_chunker", file=CF, anchor="pub fn chunker(&self) -> Chunker", ret_name="r",
         wrap_open="impl ConfigFile {", wrap_close="}",
         functions=["repofile::configfile::ConfigFile::chunker"],
         rewrites=[Rw("self.chunker.unwrap_or_default()", "vchunker_or_default(self.chunker)", why="Option::unwrap_or_default with #[default] Rabin (derive dropped by extraction)")],
         contract="\n    ensures /*@cfg_chunker*/ r == self.eff_chunker(),\n"),
    acc("chunk_size", "usize", "eff_chunk_size"),
    acc("chunk_min_size", "usize", "eff_chunk_min_size"),
    acc("chunk_max_size", "usize", "eff_chunk_max_size"),
    Unit(name="check_rabin_params", file=RB, anchor="pub(crate) fn check_rabin_params(", ret_name="r",
         rewrites=[R_ERR],
         functions=["chunker::rabin::check_rabin_params"],
         contract="\n    ensures /*@accepts_iff*/ r.is_ok() <==> rabin_params_ok(chunk_size, chunk_min_size, chunk_max_size),\n"),
    Unit(name="apply", file=CO, kind="split", anchor="pub fn apply(&self, config: &mut ConfigFile) -> RusticResult<()>", ret_name="r",
         wrap_open="impl ConfigOptions {", wrap_close="}",
         functions=["commands::config::ConfigOptions::apply"],
         rewrites=[
             R_ERR,
             Rw(r"let range = (?P<lo>\S+)\.\.=(?P<hi>\S+);", r"let range = VRangeU32 { lo: \g<lo>, hi: \g<hi> };", regex=True,
                why="RangeInclusive literal -> two-field struct (bounds verbatim)"),
             Rw("zstd::compression_level_range()", "vzstd_compression_level_range()", why="zstd FFI: abstract inclusive range"),
             Rw(r"size\s*\.as_u64\(\)\s*\.try_into\(\)\s*\.map_err\(\|err\| construct_size_too_large_error\(err, size\)\)\?",
                "vtry_from_u64(size.as_u64())?", regex=True, count=None,
                why="u64 -> usize/u32 TryInto + error mapping closure -> stub with the TryFrom contract"),
         ],
         splits=["if let Some(chunker) = self.set_chunker {",
                 "if let Some(compression) = self.set_compression {",
                 "if let Some(size) = self.set_treepack_size {",
                 "if let Some(percent) = self.set_min_packsize_tolerate_percent {"],
         seg_call="self.{name}(config)",
         seg_contracts=[
             """
    ensures
        /*@seg0_frame*/ r is Ok ==> *final(config) == self.post0(*old(config)),
        /*@seg0_version*/ r is Ok ==> (self.set_version matches Some(v) ==> 1 <= v <= 2 && v >= old(config).version),
""",
             """
    ensures
        /*@seg1_frame*/ r is Ok ==> *final(config) == self.post1(*old(config)),
        /*@seg1_rabin*/ r is Ok && final(config).eff_chunker() is Rabin ==>
            rabin_params_ok(final(config).eff_chunk_size(), final(config).eff_chunk_min_size(), final(config).eff_chunk_max_size()),
        /*@seg1_fixed*/ r is Ok && final(config).eff_chunker() is FixedSize ==> final(config).eff_chunk_size() >= 1,
""",
             """
    ensures
        /*@seg2_frame*/ r is Ok ==> *final(config) == self.post2(*old(config)),
        /*@seg2_compression*/ r is Ok ==> (self.set_compression matches Some(c) ==> ZSTD_LO() <= c <= ZSTD_HI() && (old(config).version == 1 ==> c == 0)),
""",
             """
    ensures
        /*@seg3_frame*/ r is Ok ==> *final(config) == self.post3(*old(config)),
        /*@seg3_fit*/ r is Ok ==> (self.set_treepack_size matches Some(s) ==> s.0 <= 0xFFFF_FFFF) && (self.set_datapack_size matches Some(s) ==> s.0 <= 0xFFFF_FFFF)
                            && (self.set_treepack_size_limit matches Some(s) ==> s.0 <= 0xFFFF_FFFF) && (self.set_datapack_size_limit matches Some(s) ==> s.0 <= 0xFFFF_FFFF),
""",
             """
    ensures
        /*@seg4_frame*/ r is Ok ==> *final(config) == self.post4(*old(config)),
        /*@seg4_min*/ r is Ok ==> (self.set_min_packsize_tolerate_percent matches Some(p) ==> p <= 100),
        /*@seg4_max*/ r is Ok ==> (self.set_max_packsize_tolerate_percent matches Some(p) ==> p == 0 || p >= 100),
""",
         ],
         contract="""
    ensures
        // --- a change alters only the settings it names ---
        /*@frame_untouched*/ r is Ok ==> final(config).id == old(config).id && final(config).chunker_polynomial == old(config).chunker_polynomial
                              && final(config).is_hot == old(config).is_hot,
        /*@frame_version*/ r is Ok ==> final(config).version == (match self.set_version { Some(v) => v, None => old(config).version }),
        /*@frame_chunker*/ r is Ok ==> final(config).chunker == opt_set(self.set_chunker, old(config).chunker),
        /*@frame_chunk_size*/ r is Ok ==> final(config).chunk_size == opt_usize(self.set_chunk_size, old(config).chunk_size),
        /*@frame_chunk_min_size*/ r is Ok ==> final(config).chunk_min_size == opt_usize(self.set_chunk_min_size, old(config).chunk_min_size),
        /*@frame_chunk_max_size*/ r is Ok ==> final(config).chunk_max_size == opt_usize(self.set_chunk_max_size, old(config).chunk_max_size),
        /*@frame_compression*/ r is Ok ==> final(config).compression == opt_set(self.set_compression, old(config).compression),
        /*@frame_append_only*/ r is Ok ==> final(config).append_only == opt_set(self.set_append_only, old(config).append_only),
        /*@frame_treepack_size*/ r is Ok ==> final(config).treepack_size == opt_u32(self.set_treepack_size, old(config).treepack_size),
        /*@frame_treepack_growfactor*/ r is Ok ==> final(config).treepack_growfactor == opt_set(self.set_treepack_growfactor, old(config).treepack_growfactor),
        /*@frame_treepack_size_limit*/ r is Ok ==> final(config).treepack_size_limit == opt_u32(self.set_treepack_size_limit, old(config).treepack_size_limit),
        /*@frame_datapack_size*/ r is Ok ==> final(config).datapack_size == opt_u32(self.set_datapack_size, old(config).datapack_size),
        /*@frame_datapack_growfactor*/ r is Ok ==> final(config).datapack_growfactor == opt_set(self.set_datapack_growfactor, old(config).datapack_growfactor),
        /*@frame_datapack_size_limit*/ r is Ok ==> final(config).datapack_size_limit == opt_u32(self.set_datapack_size_limit, old(config).datapack_size_limit),
        /*@frame_min_percent*/ r is Ok ==> final(config).min_packsize_tolerate_percent == opt_set(self.set_min_packsize_tolerate_percent, old(config).min_packsize_tolerate_percent),
        /*@frame_max_percent*/ r is Ok ==> final(config).max_packsize_tolerate_percent == opt_set(self.set_max_packsize_tolerate_percent, old(config).max_packsize_tolerate_percent),
        /*@frame_extra_verify*/ r is Ok ==> final(config).extra_verify == opt_set(self.set_extra_verify, old(config).extra_verify),
        // --- what is accepted ---
        /*@version_supported*/ r is Ok ==> (self.set_version matches Some(v) ==> 1 <= v <= 2),
        /*@no_downgrade*/ r is Ok ==> final(config).version >= old(config).version,
        /*@rabin_params_valid*/ r is Ok && final(config).eff_chunker() is Rabin ==>
            rabin_params_ok(final(config).eff_chunk_size(), final(config).eff_chunk_min_size(), final(config).eff_chunk_max_size()),
        /*@fixed_chunk_size_positive*/ r is Ok && final(config).eff_chunker() is FixedSize ==> final(config).eff_chunk_size() >= 1,
        /*@pack_sizes_fit*/ r is Ok ==> (self.set_treepack_size matches Some(s) ==> s.0 <= 0xFFFF_FFFF) && (self.set_datapack_size matches Some(s) ==> s.0 <= 0xFFFF_FFFF)
                            && (self.set_treepack_size_limit matches Some(s) ==> s.0 <= 0xFFFF_FFFF) && (self.set_datapack_size_limit matches Some(s) ==> s.0 <= 0xFFFF_FFFF),
        /*@compression_in_range*/ r is Ok ==> (self.set_compression matches Some(c) ==> ZSTD_LO() <= c <= ZSTD_HI() && (final(config).version == 1 ==> c == 0)),
        /*@min_percent_rule*/ r is Ok ==> (self.set_min_packsize_tolerate_percent matches Some(p) ==> p <= 100),
        /*@max_percent_rule*/ r is Ok ==> (self.set_max_packsize_tolerate_percent matches Some(p) ==> p == 0 || p >= 100),
"""),
]

UNITS += [
    Unit(name="apply_config", file=CO, anchor="pub(crate) fn apply_config<S: Open>(", ret_name="r",
         functions=["commands::config::apply_config"],
         rewrites=[
             R_ERR,
             Rw("fn apply_config<S: Open>(", "fn apply_config(", sig=True, why="Repository<S> -> repository stub"),
             Rw("repo: &mut Repository<S>", "repo: &mut VRepo", sig=True, why="Repository<S> -> repository stub"),
             Rw("repo.config().clone()", "vclone_config(repo.config())", why="#[derive(Clone)] (dropped by extraction)"),
             Rw("opts.apply(&mut new_config)?;", "vapply(opts, &mut new_config)?;", why="ConfigOptions::apply through its contract (unit `apply`)"),
             Rw("&new_config == repo.config()", "vconfig_eq(&new_config, repo.config())", why="#[derive(PartialEq)] (dropped by extraction)"),
             Rw("repo.set_config(new_config.clone());", "repo.set_config(vclone_config(&new_config));", why="#[derive(Clone)]"),
             Rw("save_config(repo, new_config, *repo.dbe().key())?;", "save_config(repo, new_config, repo.dbe().key())?;", why="key passed by reference (Copy type in the original)"),
         ],
         contract="""
    ensures
        /*@refused_change_leaves_config_untouched*/ r is Err ==> final(repo).cfg == old(repo).cfg || accepted(final(repo).cfg),
        /*@append_only_refuses_before_any_effect*/ old(repo).cfg.append_only == Some(true) && opts.set_append_only != Some(false) ==> r is Err && final(repo).cfg == old(repo).cfg,
        /*@unchanged_config_is_not_saved*/ r == Ok::<bool, Box<RusticError>>(false) ==> final(repo).cfg == old(repo).cfg,
        /*@stored_config_is_an_accepted_one*/ r == Ok::<bool, Box<RusticError>>(true) ==> accepted(final(repo).cfg),
"""),
]

UNITS += [
    Unit(name="packsizer_add_size", file=PK, anchor="pub fn add_size(&mut self, added: u32)", wrap_open="impl PackSizer {", wrap_close="}",
         functions=["blob::packer::PackSizer::add_size"],
         contract="""
    requires
        old(self).current_size + added <= u64::MAX,   // total repository size: plain u64 counter
    ensures
        /*@add_size*/ final(self).current_size == old(self).current_size + added,
        final(self).default_size == old(self).default_size && final(self).grow_factor == old(self).grow_factor && final(self).size_limit == old(self).size_limit,
"""),
    Unit(name="cfg_packsize", file=CF, anchor="pub fn packsize(&self, blob: BlobType) -> (u32, u32, u32)", ret_name="r",
         wrap_open="impl ConfigFile {", wrap_close="}",
         functions=["repofile::configfile::ConfigFile::packsize"],
         contract="""
    ensures
        // a NAMED setting is used exactly as given; what applies when nothing is named (the defaults) is the library's choice
        // and not part of the property
        /*@packsize_defaults*/ blob is Tree ==> (self.treepack_size matches Some(x) ==> r.0 == x)
              && (self.treepack_growfactor matches Some(x) ==> r.1 == x) && (self.treepack_size_limit matches Some(x) ==> r.2 == x),
        blob is Data ==> (self.datapack_size matches Some(x) ==> r.0 == x)
              && (self.datapack_growfactor matches Some(x) ==> r.1 == x) && (self.datapack_size_limit matches Some(x) ==> r.2 == x),
"""),
    Unit(name="cfg_packsize_ok_percents", file=CF, anchor="pub fn packsize_ok_percents(&self) -> (u32, u32)", ret_name="r",
         wrap_open="impl ConfigFile {", wrap_close="}",
         functions=["repofile::configfile::ConfigFile::packsize_ok_percents"],
         contract="""
    ensures
        // a named tolerance is used as given (0 for the upper one means 'no upper limit'); the defaults are the library's choice
        /*@percent_defaults*/ self.min_packsize_tolerate_percent matches Some(x) ==> r.0 == x,
        self.max_packsize_tolerate_percent matches Some(x) ==> r.1 == (if x == 0 { u32::MAX } else { x }),
"""),
    Unit(name="packsizer_from_config", file=PK, anchor="pub fn from_config(config: &ConfigFile, blob_type: BlobType, current_size: u64) -> Self", ret_name="r",
         wrap_open="impl PackSizer {", wrap_close="}",
         functions=["blob::packer::PackSizer::from_config"],
         contract="""
    ensures
        /*@sizer_from_config*/ r.current_size == current_size,
        // the configured (named) pack size and grow factor of THIS blob type reach the sizer
        blob_type is Data ==> (config.datapack_size matches Some(x) ==> r.default_size == x) && (config.datapack_growfactor matches Some(x) ==> r.grow_factor == x),
        blob_type is Tree ==> (config.treepack_size matches Some(x) ==> r.default_size == x) && (config.treepack_growfactor matches Some(x) ==> r.grow_factor == x),
"""),
]

INI = "crates/core/src/commands/init.rs"
UNITS += [
    Unit(name="init_validates_first", file=INI, anchor="pub(crate) fn init<S>(", ret_name="r",
         functions=["commands::init::init"],
         rewrites=[
             Rw("fn init<S>(", "fn init(", sig=True, why="repository state generic dropped"),
             Rw("repo: &Repository<S>,", "repo: &VInitRepo,", sig=True, why="repository -> stub"),
             Rw("credentials: &Credentials,", "credentials: &CredentialsR,", sig=True, why="credentials -> opaque"),
             Rw("key_opts: &KeyOptions,", "key_opts: &KeyOptionsR,", sig=True, why="key options -> opaque"),
             Rw("RusticResult<(Key, Option<KeyId>, ConfigFile)>", "RusticResult<(KeyR, Option<KeyIdR>, ConfigFile)>", sig=True, why="key types -> opaque"),
             Rw("RepositoryId::from(Id::random())", "vrandom_repo_id()", why="random repository id"),
             Rw("random_poly()?", "vrandom_poly()?", why="random irreducible polynomial (C06: shape only)"),
             Rw("ConfigFile::new(2, repo_id, chunker_poly)", "vconfigfile_new(2, repo_id, chunker_poly)", why="ConfigFile::new -> stub: a fresh configuration"),
             Rw("repo.be_hot.is_some()", "repo.vhas_hot()", why="hot store present?"),
             Rw("config_opts.apply(&mut config)?;", "vapply(config_opts, &mut config)?;", why="ConfigOptions::apply seen through its contract (unit `apply`): Ok only for an accepted configuration"),
             Rw("init_with_config(repo, credentials, key_opts, &config)?", "vinit_with_config(repo, credentials, key_opts, &config)?", why="init_with_config (creates the repository) -> effectful stub: PRECONDITION 'configuration accepted'"),
         ],
         contract="""
    ensures
        // a repository comes into being only with a configuration that ConfigOptions::apply accepted (refused options create nothing:
        // precondition of vinit_with_config), and the configuration handed back is that one
        /*@initialised_config_is_an_accepted_one*/ r matches Ok(x) ==> accepted(x.2),
"""),
]

CH = "crates/core/src/chunker.rs"
UNITS += [
    Unit(name="ChunkIterEnum", file=CH, kind="type", anchor="pub(crate) enum ChunkIter<R: Read + Send> {",
         rewrites=[Rw("enum ChunkIter<R: Read + Send> {", "enum ChunkIter<R> {", why="reader bound dropped (opaque reader)")]),
    Unit(name="chunker_from_config", file=CH, anchor="pub(crate) fn from_config(", within="impl<R: Read + Send> ChunkIter<R> {", ret_name="r",
         wrap_open="impl<R> ChunkIter<R> {", wrap_close="}",
         functions=["chunker::ChunkIter::from_config"],
         contract="""
    requires
        // exactly what ConfigOptions::apply ensures for every configuration it accepts (clauses apply.seg1_rabin / seg1_fixed)
        chunker_config_ok(*config),
    ensures
        /*@accepted_config_always_yields_a_chunker*/ (config.eff_chunker() is FixedSize || config.poly_ok()) ==> r is Ok,
        /*@chunker_is_the_configured_one*/ match r {
            Ok(ChunkIter::Rabin(b)) => config.eff_chunker() is Rabin && b.size == config.eff_chunk_size() && b.min_size == config.eff_chunk_min_size()
                && b.max_size == config.eff_chunk_max_size() && b.reader == reader,
            Ok(ChunkIter::FixedSize(f)) => config.eff_chunker() is FixedSize && f.size == config.eff_chunk_size() && f.size >= 1 && f.reader == reader,
            Err(_) => true,
        },
"""),
]

KANI = []
META = {"not_covered": [
    "the end-to-end statement 'backup, check and restore succeed on every accepted configuration' (composition)",
    "init_with_config (key creation, save_config / save_config_hot: units of C16), ConfigFile::new, zstd level semantics; `init` itself IS a unit (nothing is created before the options were accepted)",
    "prune options other than the limit arithmetic (keep-pack/keep-delete spans: jiff)",
]}
