// ===== C19: the cache directory's read functions over the std::io model (specs/common/io.rs) =====
// The cache directory as a ghost map (type, id) -> bytes; `path(tpe, id)` names the entry, File::open / fs::read see it.
pub struct CacheIo { pub files: Ghost<Map<Key, Seq<u8>>> }
pub struct PathC { pub key: Ghost<Key> }
pub struct VFile { pub rest: Ghost<Seq<u8>> }
impl VReader for VFile {
    spec fn remaining(&self) -> Seq<u8> { self.rest@ }
}
impl CacheIo {
    pub open spec fn view(&self) -> Map<Key, Seq<u8>> { self.files@ }
    #[verifier::external_body]
    pub fn path(&self, tpe: FileType, id: &Id) -> (r: PathC) ensures r.key@ == (tpe, *id), { unimplemented!() }
    // File::open(&path): a handle positioned at the start of the entry (ASSUMED std/OS behaviour)
    #[verifier::external_body]
    pub fn vopen(&self, path: &PathC) -> (r: Result<VFile, IoError>)
        ensures r matches Ok(f) ==> self@.dom().contains(path.key@) && f.rest@ == self@[path.key@],
    { unimplemented!() }
    // fs::read(&path): the whole entry
    #[verifier::external_body]
    pub fn vfs_read(&self, path: &PathC) -> (r: Result<Vec<u8>, IoError>)
        ensures r matches Ok(v) ==> self@.dom().contains(path.key@) && v@ == self@[path.key@],
    { unimplemented!() }
}
// err.kind() == io::ErrorKind::NotFound
#[verifier::external_body]
pub fn verr_is_not_found(e: &IoError) -> bool { unimplemented!() }
// file.seek(SeekFrom::Start(n)) on a freshly opened file: the stream continues at byte n (nothing left if n is past the end)
#[verifier::external_body]
pub fn vseek_start(f: &mut VFile, n: u64) -> (r: Result<u64, IoError>)
    ensures r is Ok ==> final(f).rest@ == (if n <= old(f).rest@.len() { old(f).rest@.subrange(n as int, old(f).rest@.len() as int) } else { Seq::<u8>::empty() }),
{ unimplemented!() }
// vec![0; n]
#[verifier::external_body]
pub fn vzeroed_vec(n: usize) -> (r: Vec<u8>) ensures r@.len() == n, { unimplemented!() }
#[verifier::external_body]
pub fn vbytes_of_vec(v: Vec<u8>) -> (r: Bytes) ensures r.data@ == v@, { unimplemented!() }
