// ===== C19: Cache::write_bytes / Cache::remove over a ghost file system =====
// names in the cache directory: the entry of (type, id) and the temporary name used while it is written
// (hex id + "-tmp-": never a valid entry name, Cache::list_with_size only accepts 64 hex digits -- ASSUMED distinct)
pub enum PKey { Entry(Key), Tmp(Key) }
pub struct VFsW { pub files: Ghost<Map<PKey, Seq<u8>>> }
pub struct DirW { pub key: Ghost<Key> }
pub struct PathW { pub key: Ghost<PKey> }
pub struct CacheW { pub _opaque: u64 }
impl CacheW {
    #[verifier::external_body]
    pub fn dir(&self, tpe: FileType, id: &Id) -> (r: DirW) ensures r.key@ == (tpe, *id), { unimplemented!() }
    #[verifier::external_body]
    pub fn path(&self, tpe: FileType, id: &Id) -> (r: PathW) ensures r.key@ == PKey::Entry((tpe, *id)), { unimplemented!() }
}
// dir.join(id.to_hex().to_string() + "-tmp-")
#[verifier::external_body]
pub fn vtmp_name(dir: &DirW, id: &Id) -> (r: PathW) ensures r.key@ == PKey::Tmp(dir.key@), { unimplemented!() }
impl VFsW {
    // fs::create_dir_all: no file appears or changes
    #[verifier::external_body]
    pub fn create_dir_all(&mut self, dir: &DirW) -> (r: Result<(), IoError>) ensures final(self).files@ == old(self).files@, { unimplemented!() }
    // the nested helper write_local_file (create + truncate + io::copy): ELIDED.  On success the file holds exactly the
    // bytes; on failure ANY content may be left under that name (partial write); no other name is touched
    #[verifier::external_body]
    pub fn vwrite_local_file(&mut self, name: &PathW, content: &BytesList) -> (r: RusticResult<()>)
        requires name.key@ is Tmp,   // a non-atomic write may only go to a temporary name (an interrupted one must never leave a partial ENTRY)
        ensures
            r is Ok ==> final(self).files@ == old(self).files@.insert(name.key@, content.data@),
            forall|k: PKey| k != name.key@ ==> (#[trigger] final(self).files@.dom().contains(k)) == old(self).files@.dom().contains(k),
            forall|k: PKey| k != name.key@ && old(self).files@.dom().contains(k) ==> #[trigger] final(self).files@[k] == old(self).files@[k],
    { unimplemented!() }
    // fs::remove_file: at most that name disappears
    #[verifier::external_body]
    pub fn remove_file(&mut self, name: &PathW) -> (r: Result<(), IoError>)
        ensures
            r is Ok ==> final(self).files@ == old(self).files@.remove(name.key@),
            r is Err ==> final(self).files@ == old(self).files@,
    { unimplemented!() }
    // fs::rename: atomically replaces `to` by the file `from` (POSIX rename; ASSUMED), or changes nothing
    #[verifier::external_body]
    pub fn rename(&mut self, from: &PathW, to: &PathW) -> (r: Result<(), IoError>)
        ensures
            r is Ok ==> old(self).files@.dom().contains(from.key@) && final(self).files@ == old(self).files@.remove(from.key@).insert(to.key@, old(self).files@[from.key@]),
            r is Err ==> final(self).files@ == old(self).files@,
    { unimplemented!() }
}
// what every other cache entry looks like afterwards: untouched
pub open spec fn other_entries_untouched(a: Map<PKey, Seq<u8>>, b: Map<PKey, Seq<u8>>, k: Key) -> bool {
    &&& forall|q: Key| q != k ==> (#[trigger] b.dom().contains(PKey::Entry(q))) == a.dom().contains(PKey::Entry(q))
    &&& forall|q: Key| q != k && a.dom().contains(PKey::Entry(q)) ==> #[trigger] b[PKey::Entry(q)] == a[PKey::Entry(q)]
}

// ---- the nested helper write_local_file of Cache::write_bytes: open(create, truncate, write) + io::copy ----
pub struct ReaderW { pub data: Ghost<Seq<u8>> }
pub struct VFileH { pub key: Ghost<PKey> }
// std::fs::OpenOptions as the flags it collects (builder methods by value: the call chain reads the same)
pub struct VOpenOptions { pub c: bool, pub t: bool, pub w: bool }
impl VOpenOptions {
    pub fn new() -> (r: VOpenOptions) ensures !r.c && !r.t && !r.w, { VOpenOptions { c: false, t: false, w: false } }
    pub fn create(self, b: bool) -> (r: VOpenOptions) ensures r.c == b && r.t == self.t && r.w == self.w, { VOpenOptions { c: b, t: self.t, w: self.w } }
    pub fn truncate(self, b: bool) -> (r: VOpenOptions) ensures r.t == b && r.c == self.c && r.w == self.w, { VOpenOptions { c: self.c, t: b, w: self.w } }
    pub fn write(self, b: bool) -> (r: VOpenOptions) ensures r.w == b && r.c == self.c && r.t == self.t, { VOpenOptions { c: self.c, t: self.t, w: b } }
    // open(2) with O_WRONLY [| O_CREAT] [| O_TRUNC] (ASSUMED POSIX): the file exists afterwards (it must have existed without
    // O_CREAT); O_TRUNC empties it, otherwise its old bytes stay; the handle stands at offset 0; no other name is touched
    #[verifier::external_body]
    pub fn open(self, path: &PathW, vfs: &mut VFsW) -> (r: Result<VFileH, IoError>)
        ensures
            r matches Ok(f) ==> self.w && (self.c || old(vfs).files@.dom().contains(path.key@)) && f.key@ == path.key@
                && final(vfs).files@ == old(vfs).files@.insert(path.key@, if self.t || !old(vfs).files@.dom().contains(path.key@) { Seq::<u8>::empty() } else { old(vfs).files@[path.key@] }),
            r is Err ==> final(vfs).files@ == old(vfs).files@,
    { unimplemented!() }
}
// what writing `data` from offset 0 into a file holding `old` leaves: the data, followed by whatever of `old` lies beyond it
pub open spec fn overwritten(old: Seq<u8>, data: Seq<u8>) -> Seq<u8> {
    if data.len() >= old.len() { data } else { data + old.subrange(data.len() as int, old.len() as int) }
}
// io::copy(&mut reader, &mut file) on a handle at offset 0 (write_all semantics; ASSUMED): Ok => all bytes of the reader were
// written from offset 0 on; Err => anything may be left under THAT name; no other name is touched
#[verifier::external_body]
pub fn vio_copy(reader: &mut ReaderW, file: &mut VFileH, vfs: &mut VFsW) -> (r: Result<u64, IoError>)
    requires old(vfs).files@.dom().contains(old(file).key@),
    ensures
        final(file).key@ == old(file).key@,
        r is Ok ==> final(vfs).files@ == old(vfs).files@.insert(old(file).key@, overwritten(old(vfs).files@[old(file).key@], old(reader).data@)),
        forall|k: PKey| k != old(file).key@ ==> (#[trigger] final(vfs).files@.dom().contains(k)) == old(vfs).files@.dom().contains(k),
        forall|k: PKey| k != old(file).key@ && old(vfs).files@.dom().contains(k) ==> #[trigger] final(vfs).files@[k] == old(vfs).files@[k],
{ unimplemented!() }
