// ===== C19 prelude: the caching wrapper between the repository code and a storage backend =====
#[derive(Clone, Copy, PartialEq, Eq, Structural)]
pub struct Id(pub u64);
pub struct Bytes { pub data: Ghost<Seq<u8>> }
pub struct BytesList { pub data: Ghost<Seq<u8>> }
impl Bytes {
    #[verifier::external_body]
    pub fn clone(&self) -> (r: Bytes) ensures r.data@ == self.data@, { unimplemented!() }
    // Bytes::slice(range): PANICS unless start <= end <= len  -> precondition
    #[verifier::external_body]
    pub fn slice(&self, range: core::ops::Range<usize>) -> (r: Bytes)
        requires range.start <= range.end <= self.data@.len(),
        ensures r.data@ == self.data@.subrange(range.start as int, range.end as int),
    { unimplemented!() }
    #[verifier::external_body]
    pub fn len(&self) -> (r: usize) ensures r == self.data@.len(), { unimplemented!() }
    #[verifier::external_body]
    pub fn copy_from_slice(b: &Bytes) -> (r: Bytes) ensures r.data@ == b.data@, { unimplemented!() }
}
// data.clone().into(): Bytes -> BytesList with the same bytes
#[verifier::external_body]
pub fn vbyteslist_of(b: &Bytes) -> (r: BytesList) ensures r.data@ == b.data@, { unimplemented!() }

pub type Key = (FileType, Id);
// CONTENT ADDRESSING (assumed, cf. C04): a file id determines the file's bytes
pub uninterp spec fn CONTENT(k: Key) -> Seq<u8>;

// the storage backend behind the cache (Arc<dyn WriteBackend>): a map from (type, id) to bytes that other processes
// may change between calls; one call sees one state
pub struct VBackend { pub files: Ghost<Map<Key, Seq<u8>>> }
// whether a read of this file is answered by the backend in this state (it may fail for reasons of its own: network, tier);
// one state gives one answer -- this is what "the same result without the cache" refers to
pub uninterp spec fn BE_ANSWERS(be: VBackend, k: Key) -> bool;
// likewise: whether the backend accepts a write / a removal of this file in this state
pub uninterp spec fn BE_ACCEPTS_WRITE(be: VBackend, k: Key) -> bool;
pub uninterp spec fn BE_ACCEPTS_REMOVE(be: VBackend, k: Key) -> bool;
impl VBackend {
    pub open spec fn view(&self) -> Map<Key, Seq<u8>> { self.files@ }
    #[verifier::external_body]
    pub fn location(&self) -> StringR { unimplemented!() }
    #[verifier::external_body]
    pub fn list_with_size(&self, tpe: FileType) -> (r: RusticResult<Vec<(Id, u32)>>)
        ensures r matches Ok(v) ==> forall|id: Id, size: u32| #![trigger v@.contains((id, size))] v@.contains((id, size)) <==> (self@.dom().contains((tpe, id)) && self@[(tpe, id)].len() == size),
    { unimplemented!() }
    #[verifier::external_body]
    pub fn read_full(&self, tpe: FileType, id: &Id) -> (r: RusticResult<Bytes>)
        ensures r matches Ok(d) ==> self@.dom().contains((tpe, *id)) && d.data@ == self@[(tpe, *id)],
                r is Ok <==> BE_ANSWERS(*self, (tpe, *id)),
    { unimplemented!() }
    #[verifier::external_body]
    pub fn read_partial(&self, tpe: FileType, id: &Id, cacheable: bool, offset: u32, length: u32) -> (r: RusticResult<Bytes>)
        ensures r matches Ok(d) ==> self@.dom().contains((tpe, *id)) && offset + length <= self@[(tpe, *id)].len()
            && d.data@ == self@[(tpe, *id)].subrange(offset as int, offset + length),
                r is Ok <==> BE_ANSWERS(*self, (tpe, *id)) && offset + length <= self@[(tpe, *id)].len(),
    { unimplemented!() }
    #[verifier::external_body]
    pub fn needs_warm_up(&self) -> bool { unimplemented!() }
    #[verifier::external_body]
    pub fn warm_up(&self, tpe: FileType, id: &Id) -> RusticResult<()> { unimplemented!() }
    #[verifier::external_body]
    pub fn warmup_path(&self, tpe: FileType, id: &Id) -> StringR { unimplemented!() }
    #[verifier::external_body]
    pub fn create(&self) -> RusticResult<()> { unimplemented!() }
    #[verifier::external_body]
    pub fn write_bytes(&mut self, tpe: FileType, id: &Id, cacheable: bool, content: BytesList) -> (r: RusticResult<()>)
        ensures r is Ok ==> final(self)@ == old(self)@.insert((tpe, *id), content.data@), r is Err ==> final(self)@ == old(self)@,
                r is Ok <==> BE_ACCEPTS_WRITE(*old(self), (tpe, *id)),
    { unimplemented!() }
    #[verifier::external_body]
    pub fn remove(&mut self, tpe: FileType, id: &Id, cacheable: bool) -> (r: RusticResult<()>)
        ensures r is Ok ==> final(self)@ == old(self)@.remove((tpe, *id)), r is Err ==> final(self)@ == old(self)@,
                r is Ok <==> BE_ACCEPTS_REMOVE(*old(self), (tpe, *id)),
    { unimplemented!() }
}
pub struct StringR { pub _opaque: u64 }
// the cache directory (Cache: file-system code, NOT under contract) as a map; a failed operation leaves it unchanged
// (tmp + rename writes)
pub struct Cache { pub files: Ghost<Map<Key, Seq<u8>>>, pub healthy: Ghost<bool> }
impl Cache {
    pub open spec fn view(&self) -> Map<Key, Seq<u8>> { self.files@ }
    #[verifier::external_body]
    pub fn read_full(&self, tpe: FileType, id: &Id) -> (r: RusticResult<Option<Bytes>>)
        ensures r matches Ok(Some(d)) ==> self@.dom().contains((tpe, *id)) && d.data@ == self@[(tpe, *id)],
    { unimplemented!() }
    #[verifier::external_body]
    // contract PROVED over the std::io model by the unit cache_read_partial (a zero-length read past the end is an empty hit)
    pub fn read_partial(&self, tpe: FileType, id: &Id, offset: u32, length: u32) -> (r: RusticResult<Option<Bytes>>)
        ensures r matches Ok(Some(d)) ==> self@.dom().contains((tpe, *id)) && d.data@.len() == length
            && (length > 0 ==> offset + length <= self@[(tpe, *id)].len() && d.data@ == self@[(tpe, *id)].subrange(offset as int, offset + length)),
    { unimplemented!() }
    #[verifier::external_body]
    pub fn write_bytes(&mut self, tpe: FileType, id: &Id, content: &BytesList) -> (r: RusticResult<()>)
        ensures r is Ok ==> final(self)@ == old(self)@.insert((tpe, *id), content.data@), r is Err ==> final(self)@ == old(self)@,
                final(self).healthy@ == old(self).healthy@,
    { unimplemented!() }
    #[verifier::external_body]
    pub fn remove(&mut self, tpe: FileType, id: &Id) -> (r: RusticResult<()>)
        ensures r is Ok ==> final(self)@ == old(self)@.remove((tpe, *id)), r is Err ==> final(self)@ == old(self)@,
                old(self).healthy@ ==> r is Ok, final(self).healthy@ == old(self).healthy@,
    { unimplemented!() }
    // directory walk of <cache>/<type dir>: ids and sizes of the cached files of this type
    #[verifier::external_body]
    pub fn list_with_size(&self, tpe: FileType) -> (r: RusticResult<VSizeMap>)
        ensures r matches Ok(m) ==> forall|id: Id| #![trigger m@.dom().contains(id)] (m@.dom().contains(id) <==> self@.dom().contains((tpe, id)))
                    && (m@.dom().contains(id) ==> m@[id] == self@[(tpe, id)].len() as u32),
            self.healthy@ ==> r is Ok,
    { unimplemented!() }
}
pub struct CachedBackend { pub be: VBackend, pub cache: Cache }
impl CachedBackend {
    // both stores hold content-addressed files only (what is stored under an id is THE content of that id): the
    // hypothesis under which a cache can be transparent at all; cache entries with a wrong SIZE are covered by the
    // listing contract, foreign bytes of the right size under a valid id are outside it
    pub open spec fn content_addressed(&self) -> bool {
        &&& forall|k: Key| #[trigger] self.cache@.dom().contains(k) ==> self.cache@[k] == CONTENT(k)
        &&& forall|k: Key| #[trigger] self.be@.dom().contains(k) ==> self.be@[k] == CONTENT(k)
    }
}

// HashMap<Id, u32> as far as remove_not_in_list uses it
pub struct VSizeMap { pub m: Ghost<Map<Id, u32>> }
impl VSizeMap {
    pub open spec fn view(&self) -> Map<Id, u32> { self.m@ }
    #[verifier::external_body]
    pub fn remove(&mut self, id: &Id) -> (r: Option<u32>)
        ensures final(self)@ == old(self)@.remove(*id),
            old(self)@.dom().contains(*id) ==> r == Some(old(self)@[*id]), !old(self)@.dom().contains(*id) ==> r is None,
    { unimplemented!() }
    // .keys(): the keys in some order
    #[verifier::external_body]
    pub fn vkeys(&self) -> (r: Vec<Id>)
        ensures forall|id: Id| #![trigger self@.dom().contains(id)] self@.dom().contains(id) <==> r@.contains(id),
    { unimplemented!() }
}
