"""C19 — the local cache is transparent (per-call contracts of the caching wrapper)."""
from tools.extract import Unit, Rw
from tools.krun import Harness

PROPERTY = "C19"
PRELUDE = ["../common/base.rs", "../common/io.rs", "prelude.rs", "cache_io.rs", "cache_write.rs"]
CA = "crates/core/src/backend/cache.rs"
BE = "crates/core/src/backend.rs"
R_LOG = Rw("", "", count=None, kind="log", why="logging removed")
R_ERR = Rw("", "verr()", count=None, kind="err", why="RusticError construction (kind/message/context dropped)")
R_LETCHAIN = Rw("", "", count=None, kind="letchain", why="let chains `if a && let P = e { .. }` (no else) -> nested ifs (their definition); Verus rejects let chains")
R_ATTRS = Rw("", "", count=None, kind="attrs", optional=True, why="derive/serde helper attributes removed")
W = dict(wrap_open="impl CachedBackend {", wrap_close="}")
WR = "impl ReadBackend for CachedBackend {"
WW = "impl WriteBackend for CachedBackend {"
MUT = lambda name: Rw("fn %s(&self," % name, "fn %s(&mut self," % name, sig=True, why="interior mutability of the cache directory / backend (file system) made explicit: &self -> &mut self")
INTO = Rw("&data.clone().into()", "&vbyteslist_of(&data)", count=None, why="Bytes -> BytesList conversion")

UNITS = [
    Unit(name="FileType", file=BE, kind="type", anchor="pub enum FileType {", attrs="#[derive(Clone, Copy, PartialEq, Eq, Structural)]", rewrites=[R_ATTRS]),
    Unit(name="is_cacheable", file=BE, anchor="const fn is_cacheable(self) -> bool", within="impl FileType {", ret_name="r",
         wrap_open="impl FileType {", wrap_close="}", functions=["backend::FileType::is_cacheable"],
         contract="\n    ensures /*@only_snapshots_and_index_files_are_cacheable_by_type*/ r == (self is Snapshot || self is Index),\n"),
    Unit(name="cb_list_with_size", file=CA, anchor="fn list_with_size(&self, tpe: FileType) -> RusticResult<Vec<(Id, u32)>>", within=WR, ret_name="r", **W,
         functions=["<backend::cache::CachedBackend as ReadBackend>::list_with_size"],
         rewrites=[MUT("list_with_size"), R_LOG, R_LETCHAIN],
         contract="""
    ensures
        /*@listing_is_the_backends*/ r matches Ok(v) ==> forall|id: Id, size: u32| #![trigger v@.contains((id, size))] v@.contains((id, size)) <==> (old(self).be@.dom().contains((tpe, id)) && old(self).be@[(tpe, id)].len() == size),
        // after a listing the cache holds no snapshot / index file the repository no longer has (or has with another size),
        // unless cleaning the cache directory itself failed
        /*@after_listing_no_stale_cached_file_of_that_type*/ r is Ok && (tpe is Snapshot || tpe is Index) && old(self).cache.healthy@ ==>
            forall|id: Id| #[trigger] final(self).cache@.dom().contains((tpe, id)) ==> old(self).be@.dom().contains((tpe, id)) && old(self).be@[(tpe, id)].len() == final(self).cache@[(tpe, id)].len() as u32,
        /*@listing_never_adds_to_cache*/ forall|k: Key| #[trigger] final(self).cache@.dom().contains(k) ==> old(self).cache@.dom().contains(k) && final(self).cache@[k] == old(self).cache@[k],
        /*@listing_leaves_backend*/ final(self).be@ == old(self).be@,
"""),
]

UNITS += [
    Unit(name="cb_read_full", file=CA, anchor="fn read_full(&self, tpe: FileType, id: &Id) -> RusticResult<Bytes>", within=WR, ret_name="r", **W,
         functions=["<backend::cache::CachedBackend as ReadBackend>::read_full"],
         rewrites=[MUT("read_full"), R_LOG, R_LETCHAIN, INTO],
         contract="""
    requires old(self).content_addressed(),
    ensures
        // same answer as the backend alone whenever the backend has the file; what comes back is always THE content of that id
        /*@cached_read_returns_the_content_of_the_id*/ r matches Ok(d) ==> d.data@ == CONTENT((tpe, *id)) && (old(self).be@.dom().contains((tpe, *id)) || old(self).cache@.dom().contains((tpe, *id))),
        /*@uncacheable_types_bypass_the_cache*/ !(tpe is Snapshot || tpe is Index) ==> final(self).cache@ == old(self).cache@ && (r matches Ok(d) ==> old(self).be@.dom().contains((tpe, *id))),
        /*@read_fills_cache_only_with_this_file*/ final(self).cache@ == old(self).cache@ || final(self).cache@ == old(self).cache@.insert((tpe, *id), CONTENT((tpe, *id))),
        /*@read_keeps_stores_content_addressed*/ final(self).content_addressed() && final(self).be@ == old(self).be@,
        // "the same results whether or not the cache is enabled": whatever is in the cache directory (stale, truncated,
        // unreadable entries), a read the backend alone answers is answered
        /*@cached_read_succeeds_whenever_the_backend_alone_would*/ BE_ANSWERS(old(self).be, (tpe, *id)) ==> r is Ok,
"""),
    Unit(name="cb_read_partial", file=CA, anchor="fn read_partial(\n        &self,", within=WR, ret_name="r", **W,
         functions=["<backend::cache::CachedBackend as ReadBackend>::read_partial"],
         rewrites=[Rw("fn read_partial(\n        &self,", "fn read_partial(\n        &mut self,", sig=True, why="interior mutability made explicit: &self -> &mut self"),
                   R_LOG, R_LETCHAIN, INTO, R_ERR],
         contract="""
    requires old(self).content_addressed(),
    ensures
        // (a zero-length read is answered with no bytes wherever it points; the file-system layer does the same)
        /*@cached_ranged_read_returns_that_range_of_the_content*/ r matches Ok(d) ==> d.data@.len() == length && (length > 0 ==> offset + length <= CONTENT((tpe, *id)).len()
            && d.data@ == CONTENT((tpe, *id)).subrange(offset as int, offset + length)),
        /*@ranged_read_of_uncacheable_bypasses_cache*/ !(cacheable || tpe is Snapshot || tpe is Index) ==> final(self).cache@ == old(self).cache@,
        /*@ranged_read_fills_cache_only_with_this_file*/ final(self).cache@ == old(self).cache@ || final(self).cache@ == old(self).cache@.insert((tpe, *id), CONTENT((tpe, *id))),
        /*@ranged_read_keeps_stores_content_addressed*/ final(self).content_addressed() && final(self).be@ == old(self).be@,
        /*@cached_ranged_read_succeeds_whenever_the_backend_alone_would*/ BE_ANSWERS(old(self).be, (tpe, *id)) && offset + length <= old(self).be@[(tpe, *id)].len() ==> r is Ok,
"""),
    Unit(name="cb_write_bytes", file=CA, anchor="fn write_bytes(\n        &self,", within=WW, ret_name="r", **W,
         functions=["<backend::cache::CachedBackend as WriteBackend>::write_bytes"],
         rewrites=[Rw("fn write_bytes(\n        &self,", "fn write_bytes(\n        &mut self,", sig=True, why="interior mutability made explicit: &self -> &mut self"),
                   R_LOG, R_LETCHAIN],
         contract="""
    requires old(self).content_addressed(), content.data@ == CONTENT((tpe, *id)),   // callers store a file under the hash of its bytes (C04)
    ensures
        /*@write_reaches_backend_exactly_as_without_cache*/ (r is Ok ==> final(self).be@ == old(self).be@.insert((tpe, *id), content.data@)) && (r is Err ==> final(self).be@ == old(self).be@),
        /*@uncacheable_writes_bypass_cache*/ !(cacheable || tpe is Snapshot || tpe is Index) ==> final(self).cache@ == old(self).cache@,
        /*@write_through_only_this_file*/ final(self).cache@ == old(self).cache@ || final(self).cache@ == old(self).cache@.insert((tpe, *id), content.data@),
        /*@write_keeps_stores_content_addressed*/ final(self).content_addressed(),
        // "the same results whether or not the cache is enabled": the state of the cache directory never makes a write fail (or succeed)
        /*@cached_write_succeeds_exactly_when_the_backend_alone_would*/ r is Ok <==> BE_ACCEPTS_WRITE(old(self).be, (tpe, *id)),
"""),
    Unit(name="cb_remove", file=CA, anchor="fn remove(&self, tpe: FileType, id: &Id, cacheable: bool) -> RusticResult<()>", within=WW, ret_name="r", **W,
         functions=["<backend::cache::CachedBackend as WriteBackend>::remove"],
         rewrites=[MUT("remove"), R_LOG, R_LETCHAIN],
         contract="""
    requires old(self).content_addressed(),
    ensures
        /*@remove_reaches_backend_exactly_as_without_cache*/ (r is Ok ==> final(self).be@ == old(self).be@.remove((tpe, *id))) && (r is Err ==> final(self).be@ == old(self).be@),
        /*@removed_cacheable_file_leaves_the_cache*/ (cacheable || tpe is Snapshot || tpe is Index) && old(self).cache.healthy@ ==> !final(self).cache@.dom().contains((tpe, *id)),
        /*@remove_touches_only_this_cache_entry*/ final(self).cache@ == old(self).cache@ || final(self).cache@ == old(self).cache@.remove((tpe, *id)),
        /*@remove_keeps_stores_content_addressed*/ final(self).content_addressed(),
        /*@cached_remove_succeeds_exactly_when_the_backend_alone_would*/ r is Ok <==> BE_ACCEPTS_REMOVE(old(self).be, (tpe, *id)),
"""),
]

UNITS += [
    Unit(name="cache_remove_not_in_list", file=CA, anchor="pub fn remove_not_in_list(&self, tpe: FileType, list: &Vec<(Id, u32)>) -> RusticResult<()>", within="impl Cache {", ret_name="r",
         wrap_open="impl Cache {", wrap_close="}",
         functions=["backend::cache::Cache::remove_not_in_list"], optional_loops=True,
         rewrites=[MUT("remove_not_in_list"), R_LOG, R_LETCHAIN,
                   Rw("for (id, size) in list {", "for e in it: list.iter() { let (id, size) = (&e.0, &e.1);", why="Verus for-loop syntax; by-reference destructuring"),
                   Rw("for id in list_cache.keys() {", "let vkeys = list_cache.vkeys(); for id in it2: vkeys.iter() {", why="HashMap::keys -> key vector stub; Verus for-loop syntax"),
         ],
         contract="""
    ensures
        /*@cleaning_only_removes*/ forall|k: Key| #[trigger] final(self)@.dom().contains(k) ==> old(self)@.dom().contains(k) && final(self)@[k] == old(self)@[k],
        /*@cleaning_leaves_other_types*/ forall|k: Key| k.0 != tpe && #[trigger] old(self)@.dom().contains(k) ==> final(self)@.dom().contains(k),
        // what is left in the cache for this type is listed by the repository with exactly the cached size
        /*@after_cleaning_every_cached_file_is_listed_with_its_size*/ r is Ok ==> forall|id: Id| #[trigger] final(self)@.dom().contains((tpe, id)) ==> list@.contains((id, final(self)@[(tpe, id)].len() as u32)),
        /*@cleaning_succeeds_on_a_healthy_cache_dir*/ old(self).healthy@ ==> r is Ok, final(self).healthy@ == old(self).healthy@,
""",
         loops={1: """
            invariant
                self.healthy@ == old(self).healthy@,
                forall|k: Key| #[trigger] self@.dom().contains(k) ==> old(self)@.dom().contains(k) && self@[k] == old(self)@[k],
                forall|k: Key| k.0 != tpe && #[trigger] old(self)@.dom().contains(k) ==> self@.dom().contains(k),
                // files still pending in list_cache are cached with that size
                forall|id: Id| #[trigger] list_cache@.dom().contains(id) ==> self@.dom().contains((tpe, id)) && list_cache@[id] == self@[(tpe, id)].len() as u32,
                // every cached file of this type is either pending or was found in the listing with its size
                forall|id: Id| #[trigger] self@.dom().contains((tpe, id)) ==> list_cache@.dom().contains(id) || list@.contains((id, self@[(tpe, id)].len() as u32)),
""", 2: """
            invariant
                self.healthy@ == old(self).healthy@,
                forall|k: Key| #[trigger] self@.dom().contains(k) ==> old(self)@.dom().contains(k) && self@[k] == old(self)@[k],
                forall|k: Key| k.0 != tpe && #[trigger] old(self)@.dom().contains(k) ==> self@.dom().contains(k),
                forall|id: Id| #![trigger list_cache@.dom().contains(id)] list_cache@.dom().contains(id) <==> vkeys@.contains(id),
                // a cached file of this type is a key not yet visited, or is listed with its size
                forall|id: Id| #[trigger] self@.dom().contains((tpe, id)) ==> (exists|j: int| it2.index@ <= j < vkeys@.len() && vkeys@[j] == id) || list@.contains((id, self@[(tpe, id)].len() as u32)),
"""},
         hints=[("loop_start", "1", "            proof { assert(list@[it.index@] == *e); assert(list@.contains(*e)); }"),
                ("loop_start", "2", "            proof { assert(vkeys@[it2.index@] == *id); }")],
         ),
]
KANI = []
# ---- Cache::{read_full, read_partial}: the file-system side of a cache hit, over the std::io model
R_MAPERR = Rw("", "", count=None, kind="maperr", why=".map_err(<error building closure>) -> .vmap_err()")
WC = dict(wrap_open="impl CacheIo {", wrap_close="}")
UNITS += [
    Unit(name="cache_read_full", file=CA, anchor="pub fn read_full(&self, tpe: FileType, id: &Id) -> RusticResult<Option<Bytes>>", within="impl Cache {", ret_name="r", **WC,
         functions=["backend::cache::Cache::read_full"],
         rewrites=[R_LOG, R_ERR,
                   Rw("fs::read(&path)", "self.vfs_read(&path)", why="std::fs::read -> ghost file-system stub"),
                   Rw("err.kind() == io::ErrorKind::NotFound", "verr_is_not_found(&err)", why="io::Error::kind comparison -> stub"),
                   Rw("data.into()", "vbytes_of_vec(data)", why="Vec<u8> -> Bytes")],
         contract="""
    ensures /*@cache_hit_is_the_whole_entry*/ r matches Ok(Some(d)) ==> self@.dom().contains((tpe, *id)) && d.data@ == self@[(tpe, *id)],
"""),
    Unit(name="cache_read_partial", file=CA, anchor="pub fn read_partial(\n        &self,\n        tpe: FileType,\n        id: &Id,\n        offset: u32,\n        length: u32,\n    ) -> RusticResult<Option<Bytes>>", within="impl Cache {", ret_name="r", **WC,
         functions=["backend::cache::Cache::read_partial"],
         rewrites=[R_LOG, R_ERR, R_MAPERR,
                   Rw("File::open(&path)", "self.vopen(&path)", why="File::open -> ghost file-system stub"),
                   Rw("err.kind() == io::ErrorKind::NotFound", "verr_is_not_found(&err)", why="io::Error::kind comparison -> stub"),
                   Rw(r"u64::from\((\w+)\)", r"(\1 as u64)", regex=True, count=None, why="u64::from(u32) -> cast"),
                   Rw(r"file\s*\.seek\(SeekFrom::Start\(([^;]*?)\)\)(?=\s*\.v?map_err)", r"vseek_start(&mut file, \1)", regex=True, why="Seek::seek(SeekFrom::Start(..)) -> io model stub"),
                   Rw(r"vec!\[0; (\w+) as usize\]", r"vzeroed_vec(\1 as usize)", regex=True, why="vec![0; n] -> stub: n bytes"),
                   Rw("file.read_exact(&mut vec)", "vstd_read_exact(&mut file, &mut vec)", why="Read::read_exact -> io model (fills the buffer or fails)"),
                   Rw(r"file\.take\(([^;]*?)\)\.read_to_end\(&mut vec\)", r"vstd_take_read_to_end(&mut file, \1, &mut vec)", regex=True, why="Read::take(n).read_to_end -> io model (up to n bytes, fewer at end of file)"),
                   Rw("vec.into()", "vbytes_of_vec(vec)", why="Vec<u8> -> Bytes")],
         contract="""
    ensures
        // a cache hit is exactly the requested range of the cached entry (a shorter entry is no hit)
        /*@cache_hit_is_exactly_the_requested_range*/ r matches Ok(Some(d)) ==> self@.dom().contains((tpe, *id)) && d.data@.len() == length
            && (length > 0 ==> offset + length <= self@[(tpe, *id)].len() && d.data@ =~= self@[(tpe, *id)].subrange(offset as int, offset + length)),
"""),
]

WW = dict(wrap_open="impl CacheW {", wrap_close="}")
UNITS += [
    # Cache::write_bytes: the entry appears under its real name only complete (written under a temporary name, then renamed)
    Unit(name="cache_write_bytes", file=CA, anchor="pub fn write_bytes(&self, tpe: FileType, id: &Id, content: &BytesList) -> RusticResult<()>", within="impl Cache {", ret_name="r", **WW,
         functions=["backend::cache::Cache::write_bytes"],
         rewrites=[R_LOG, R_ERR, R_MAPERR,
                   Rw("content: &BytesList) -> RusticResult<()>", "content: &BytesList, vfs: &mut VFsW) -> RusticResult<()>", sig=True, why="ghost parameter: the cache directory as a map from names to bytes"),
                   Rw(r"fn write_local_file\(filename: &Path, mut reader: impl Read\) -> RusticResult<\(\)> \{.*?\n            Ok\(\(\)\)\n        \}\n", "", regex=True,
                      why="ELIDED: nested helper write_local_file (OpenOptions create+truncate+write, io::copy) -> stub vwrite_local_file"),
                   Rw("fs::create_dir_all(&dir)", "vfs.create_dir_all(&dir)", why="std::fs::create_dir_all -> ghost file-system stub"),
                   Rw(r"dir\.join\(id\.to_hex\(\)\.to_string\(\) \+ \"-tmp-\"\)", "vtmp_name(&dir, id)", regex=True, why="temporary file name (string building) -> stub: a name that is no entry name"),
                   Rw(r"write_local_file\(&(?P<n>\w+), content\.clone\(\)\.reader\(\)\)", r"vfs.vwrite_local_file(&\g<n>, content)", regex=True, why="write_local_file -> stub: complete on success, anything under THAT name on failure"),
                   Rw(r"fs::remove_file\(&(?P<n>\w+)\)", r"vfs.remove_file(&\g<n>)", regex=True, count=None, why="std::fs::remove_file -> ghost file-system stub"),
                   Rw(r"fs::rename\(&(?P<a>\w+), &(?P<b>\w+)\)", r"vfs.rename(&\g<a>, &\g<b>)", regex=True, why="std::fs::rename -> ghost file-system stub (atomic replace: ASSUMED)"),
         ],
         contract="""
    ensures
        /*@written_entry_is_complete*/ r is Ok ==> final(vfs).files@.dom().contains(PKey::Entry((tpe, *id))) && final(vfs).files@[PKey::Entry((tpe, *id))] == content.data@,
        // a failed write never leaves a partial file under the entry's real name: the entry is as it was
        /*@failed_write_leaves_no_partial_entry*/ r is Err ==> (final(vfs).files@.dom().contains(PKey::Entry((tpe, *id))) == old(vfs).files@.dom().contains(PKey::Entry((tpe, *id)))
            && (old(vfs).files@.dom().contains(PKey::Entry((tpe, *id))) ==> final(vfs).files@[PKey::Entry((tpe, *id))] == old(vfs).files@[PKey::Entry((tpe, *id))])),
        /*@other_entries_untouched_by_write*/ other_entries_untouched(old(vfs).files@, final(vfs).files@, (tpe, *id)),
"""),
    Unit(name="cache_remove", file=CA, anchor="pub fn remove(&self, tpe: FileType, id: &Id) -> RusticResult<()>", within="impl Cache {", ret_name="r", **WW,
         functions=["backend::cache::Cache::remove"],
         rewrites=[R_LOG, R_ERR, R_MAPERR,
                   Rw("id: &Id) -> RusticResult<()>", "id: &Id, vfs: &mut VFsW) -> RusticResult<()>", sig=True, why="ghost parameter: the cache directory"),
                   Rw(r"fs::remove_file\(&(?P<n>\w+)\)", r"vfs.remove_file(&\g<n>)", regex=True, why="std::fs::remove_file -> ghost file-system stub")],
         contract="""
    ensures
        /*@removed_entry_is_gone*/ r is Ok ==> !final(vfs).files@.dom().contains(PKey::Entry((tpe, *id))),
        /*@other_entries_untouched_by_remove*/ other_entries_untouched(old(vfs).files@, final(vfs).files@, (tpe, *id)),
"""),
]

UNITS += [
    # the nested helper of Cache::write_bytes that the unit above sees as a stub: on success the file holds EXACTLY the content
    # (the contract the stub vwrite_local_file assumes) -- which needs the truncation of a longer left-over file
    Unit(name="cache_write_local_file", file=CA, anchor="fn write_local_file(filename: &Path, mut reader: impl Read) -> RusticResult<()>", within="pub fn write_bytes(&self, tpe: FileType, id: &Id, content: &BytesList) -> RusticResult<()>", ret_name="r",
         functions=["backend::cache::Cache::write_bytes::write_local_file (nested helper)"],
         rewrites=[R_LOG, R_ERR, R_MAPERR,
                   Rw("filename: &Path, mut reader: impl Read) -> RusticResult<()>", "filename: &PathW, reader0: ReaderW, vfs: &mut VFsW) -> RusticResult<()>", sig=True, why="path / reader -> stubs; ghost parameter: the cache directory"),
                   Rw("fs::OpenOptions::new()", "VOpenOptions::new()", why="std::fs::OpenOptions -> the flags it collects"),
                   Rw(".open(filename)", ".open(filename, vfs)", why="ghost parameter: the cache directory"),
                   Rw("io::copy(&mut reader, &mut file)", "vio_copy(&mut reader, &mut file, vfs)", why="std::io::copy -> stub (writes all bytes from offset 0 or fails)"),
         ],
         hints=[("before", "let mut file = ", "            let mut reader = reader0;")],
         contract="""
    ensures
        /*@written_file_holds_exactly_the_content*/ r is Ok ==> final(vfs).files@.dom().contains(filename.key@) && final(vfs).files@[filename.key@] == reader0.data@,
        /*@write_helper_touches_only_its_file*/ forall|k: PKey| k != filename.key@ ==> ((#[trigger] final(vfs).files@.dom().contains(k)) == old(vfs).files@.dom().contains(k)),
"""),
]

META = {"not_covered": [
    "the statement's quantifier: histories through a cached and an uncached handle, stale/truncated/foreign files planted in the cache directory -- only the single-call building blocks are decided here",
    "Cache::list_with_size (directory walk, iterator chain) -- stub with map semantics; Cache::new (directory creation, CACHEDIR.TAG); read_full / read_partial ARE units over the std::io model (File::open/seek/read_exact assumed), write_bytes / remove ARE units over a ghost file system (rename atomic, nested write helper elided), remove_not_in_list IS a unit",
    "a cached file with foreign bytes of the right size under a valid id (outside the content-addressing hypothesis; nothing re-hashes cached files)",
    "reads of a file that only the cache still has (between two listings): the cached handle answers, an uncached one fails",
    "pass-through methods location / needs_warm_up / warm_up / warmup_path / create (one delegating call each)",
]}
