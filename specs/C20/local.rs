// ===== C20 (kernel): the directory backend LocalBackend over a ghost file system and the std::io model =====
#[derive(Clone, Copy, PartialEq, Eq, Structural)]
pub struct Id(pub u64);
pub struct Bytes { pub data: Ghost<Seq<u8>> }
pub struct BytesList { pub data: Ghost<Seq<u8>> }
pub struct ReaderL { pub data: Ghost<Seq<u8>> }
impl BytesList {
    #[verifier::external_body]
    pub fn size(&self) -> (r: usize) ensures r == self.data@.len(), { unimplemented!() }
    // BytesList::reader(self): a reader over exactly these bytes
    #[verifier::external_body]
    pub fn reader(self) -> (r: ReaderL) ensures r.data@ == self.data@, { unimplemented!() }
}
// the file of (type, id): Config files ignore the id ("config"), every other type is named by the hex id
pub type Key = (FileType, Id);
pub open spec fn norm(tpe: FileType, id: Id) -> Key { if tpe is Config { (tpe, Id(0)) } else { (tpe, id) } }
// names in the repository directory: the file of a key, or the temporary name used while it is written
// (<name> + "-tmp-": never listed -- LocalBackend::list* only accept 64 hex digits / "config"; ASSUMED distinct)
pub enum PKey { Entry(Key), Tmp(Key) }
pub struct DirL { pub key: Ghost<Key> }
pub struct PathL { pub key: Ghost<PKey> }
pub struct StringL { pub _opaque: u64 }
pub struct CommandL { pub _opaque: u64 }

// ---- reads: the directory as a map from keys to bytes (File::open / fs::read see the file named path(tpe, id)) ----
pub struct LocalIo { pub files: Ghost<Map<Key, Seq<u8>>> }
pub struct VFile { pub rest: Ghost<Seq<u8>> }
impl VReader for VFile {
    spec fn remaining(&self) -> Seq<u8> { self.rest@ }
}
pub struct PathR { pub key: Ghost<Key> }
impl PathR {
    #[verifier::external_body]
    pub fn clone(&self) -> (r: PathR) ensures r.key@ == self.key@, { unimplemented!() }
}
impl LocalIo {
    pub open spec fn view(&self) -> Map<Key, Seq<u8>> { self.files@ }
    // LocalBackend::path = base_path(tpe, id).join(filename(tpe, id)) (string / path building: the unit base_path_and_filename
    // shows which directory and name are used; here: the name of THIS key)
    #[verifier::external_body]
    pub fn path(&self, tpe: FileType, id: &Id) -> (r: PathR) ensures r.key@ == norm(tpe, *id), { unimplemented!() }
    #[verifier::external_body]
    pub fn vfs_read(&self, path: PathR) -> (r: Result<Vec<u8>, IoError>)
        ensures r matches Ok(v) ==> self@.dom().contains(path.key@) && v@ == self@[path.key@],
    { unimplemented!() }
    #[verifier::external_body]
    pub fn vopen(&self, path: PathR) -> (r: Result<VFile, IoError>)
        ensures r matches Ok(f) ==> self@.dom().contains(path.key@) && f.rest@ == self@[path.key@],
    { unimplemented!() }
}
// file.seek(SeekFrom::Start(n)) on a freshly opened file: the stream continues at byte n (nothing left past the end)
#[verifier::external_body]
pub fn vseek_start(f: &mut VFile, n: u64) -> (r: Result<u64, IoError>)
    ensures r is Ok ==> final(f).rest@ == (if n <= old(f).rest@.len() { old(f).rest@.subrange(n as int, old(f).rest@.len() as int) } else { Seq::<u8>::empty() }),
{ unimplemented!() }
#[verifier::external_body]
pub fn vzeroed_vec(n: usize) -> (r: Vec<u8>) ensures r@.len() == n, { unimplemented!() }
#[verifier::external_body]
pub fn vbytes_of_vec(v: Vec<u8>) -> (r: Bytes) ensures r.data@ == v@, { unimplemented!() }

// ---- writes / removals: the directory as a map from NAMES (entry or temporary) to bytes ----
pub struct VFsW { pub files: Ghost<Map<PKey, Seq<u8>>> }
pub struct LocalW { pub post_create_command: Option<CommandL>, pub post_delete_command: Option<CommandL> }
impl LocalW {
    #[verifier::external_body]
    pub fn base_path(&self, tpe: FileType, id: &Id) -> (r: DirL) ensures r.key@ == norm(tpe, *id), { unimplemented!() }
    #[verifier::external_body]
    pub fn path(&self, tpe: FileType, id: &Id) -> (r: PathL) ensures r.key@ == PKey::Entry(norm(tpe, *id)), { unimplemented!() }
    // the user's post-create / post-delete hook: a process; ASSUMED not to touch the repository's files
    #[verifier::external_body]
    pub fn call_command(tpe: FileType, id: &Id, filename: &PathL, command: &CommandL) -> RusticResult<()> { unimplemented!() }
}
// parent.join(Self::filename(tpe, id) + "-tmp-")
#[verifier::external_body]
pub fn vtmp_name(dir: &DirL, tpe: FileType, id: &Id) -> (r: PathL) ensures r.key@ == PKey::Tmp(dir.key@), { unimplemented!() }
impl VFsW {
    #[verifier::external_body]
    pub fn create_dir_all(&mut self, dir: &DirL) -> (r: Result<(), IoError>) ensures final(self).files@ == old(self).files@, { unimplemented!() }
    // the nested helper write_local_file (create + truncate + set_len + io::copy + sync_all): ELIDED.  It is NOT atomic:
    // a failure -- or a crash in the middle -- leaves ANY content under that name.  PRECONDITION (publish atomically):
    // such a write may only ever go to a TEMPORARY name, never to the name a reader or a listing can see
    #[verifier::external_body]
    pub fn vwrite_local_file(&mut self, name: &PathL, content: &BytesList) -> (r: RusticResult<()>)
        requires name.key@ is Tmp,
        ensures
            r is Ok ==> final(self).files@ == old(self).files@.insert(name.key@, content.data@),
            forall|k: PKey| k != name.key@ ==> (#[trigger] final(self).files@.dom().contains(k)) == old(self).files@.dom().contains(k),
            forall|k: PKey| k != name.key@ && old(self).files@.dom().contains(k) ==> #[trigger] final(self).files@[k] == old(self).files@[k],
    { unimplemented!() }
    #[verifier::external_body]
    pub fn remove_file(&mut self, name: &PathL) -> (r: Result<(), IoError>)
        ensures
            r is Ok ==> final(self).files@ == old(self).files@.remove(name.key@),
            r is Err ==> final(self).files@ == old(self).files@,
    { unimplemented!() }
    // fs::rename: atomically replaces `to` by the file `from` (POSIX rename; ASSUMED), or changes nothing
    #[verifier::external_body]
    pub fn rename(&mut self, from: &PathL, to: &PathL) -> (r: Result<(), IoError>)
        ensures
            r is Ok ==> old(self).files@.dom().contains(from.key@) && final(self).files@ == old(self).files@.remove(from.key@).insert(to.key@, old(self).files@[from.key@]),
            r is Err ==> final(self).files@ == old(self).files@,
    { unimplemented!() }
}
pub open spec fn other_entries_untouched(a: Map<PKey, Seq<u8>>, b: Map<PKey, Seq<u8>>, k: Key) -> bool {
    &&& forall|q: Key| q != k ==> (#[trigger] b.dom().contains(PKey::Entry(q))) == a.dom().contains(PKey::Entry(q))
    &&& forall|q: Key| q != k && a.dom().contains(PKey::Entry(q)) ==> #[trigger] b[PKey::Entry(q)] == a[PKey::Entry(q)]
}

// ---- listing: the per-entry closure of list_with_size (which directory entries are reported, with which size) ----
pub struct NameL { pub id: Ghost<int> }
// the id a file name stands for (64 hex digits), None for every other name (temporary "<hex>-tmp-" names, foreign files):
// Id::parse_some / FromStr for Id -- uninterpreted
pub uninterp spec fn NAME_ID(name: NameL) -> Option<Id>;
impl Id {
    #[verifier::external_body]
    pub fn parse_some(name: &NameL, tpe: FileType) -> (r: Option<Id>) ensures r == NAME_ID(*name), { unimplemented!() }
}
pub struct MetaL { pub len: u64 }
pub struct WalkErr { pub _opaque: u64 }
pub struct FileTypeL { pub file: bool }
impl FileTypeL {
    pub fn is_file(&self) -> (r: bool) ensures r == self.file, { self.file }
}
// a directory entry as the walk yields it: regular file or not, its name, its length if its metadata can be queried
pub struct DirEntryL { pub is_file: bool, pub name: NameL, pub len: Ghost<u64>, pub meta_ok: Ghost<bool> }
impl DirEntryL {
    #[verifier::external_body]
    pub fn file_type(&self) -> (r: FileTypeL) ensures r.file == self.is_file, { unimplemented!() }
    // entry.file_name().to_string_lossy()
    #[verifier::external_body]
    pub fn vfile_name(&self) -> (r: NameL) ensures r == self.name, { unimplemented!() }
    #[verifier::external_body]
    pub fn metadata(&self) -> (r: Result<MetaL, WalkErr>)
        ensures r is Ok <==> self.meta_ok@, r matches Ok(m) ==> m.len == self.len@,
    { unimplemented!() }
}
// r.inspect_err(log).ok()
pub fn vok_entry(r: Result<DirEntryL, WalkErr>) -> (o: Option<DirEntryL>)
    ensures o == (match r { Ok(e) => Some(e), Err(_) => None::<DirEntryL> }),
{ match r { Ok(e) => Some(e), Err(_) => None } }
// the nested helper `length` of list_with_size (metadata or error -> length as u32; closures that only log): ELIDED.
// Some(l) iff the metadata could be queried and the length fits u32, and then l is that length
#[verifier::external_body]
pub fn length(meta: Result<MetaL, WalkErr>, file_name: &NameL, tpe: FileType) -> (r: Option<u32>)
    ensures r matches Some(l) ==> meta is Ok && meta->Ok_0.len == l,
            r is Some <==> (meta is Ok && meta->Ok_0.len <= u32::MAX),
{ unimplemented!() }

// ---- the generic object-store adapter (OpenDALBackend): the operator as a map from keys to bytes ----
pub struct PathS { pub key: Ghost<Key> }
pub struct BufferS { pub data: Ghost<Seq<u8>> }
impl BufferS {
    #[verifier::external_body]
    pub fn to_bytes(&self) -> (r: Bytes) ensures r.data@ == self.data@, { unimplemented!() }
}
pub struct ReadOptionsS { pub start: u64, pub end: u64 }
// ReadOptions { range: range.into(), ..Default::default() }
pub fn vread_options(range: core::ops::Range<u64>) -> (r: ReadOptionsS) ensures r.start == range.start, r.end == range.end, { ReadOptionsS { start: range.start, end: range.end } }
pub struct OpErr { pub _opaque: u64 }
pub struct VOperator { pub files: Ghost<Map<Key, Seq<u8>>> }
impl VOperator {
    // blocking Operator::read: the whole object
    #[verifier::external_body]
    pub fn read(&self, path: &PathS) -> (r: Result<BufferS, OpErr>)
        ensures r matches Ok(b) ==> self.files@.dom().contains(path.key@) && b.data@ == self.files@[path.key@],
    { unimplemented!() }
    // blocking Operator::read_options with a byte range start..end: exactly that range; a range that does not lie inside
    // the object (or with end < start) is an error (opendal's contract for a bounded range: ASSUMED)
    #[verifier::external_body]
    pub fn read_options(&self, path: &PathS, o: ReadOptionsS) -> (r: Result<BufferS, OpErr>)
        ensures r matches Ok(b) ==> self.files@.dom().contains(path.key@) && o.start <= o.end <= self.files@[path.key@].len()
            && b.data@ == self.files@[path.key@].subrange(o.start as int, o.end as int),
    { unimplemented!() }
}
pub struct OpenDalIo { pub operator: VOperator }
impl OpenDalIo {
    // OpenDALBackend::path: "config" / data/<xx>/<hex> / <dirname>/<hex> (string building): the object of THIS key
    #[verifier::external_body]
    pub fn path(&self, tpe: FileType, id: &Id) -> (r: PathS) ensures r.key@ == norm(tpe, *id), { unimplemented!() }
}
pub struct VOperatorW { pub files: Ghost<Map<Key, Seq<u8>>> }
impl BytesList {
    #[verifier::external_body]
    pub fn into_vec(self) -> (r: Vec<u8>) ensures r@ == self.data@, { unimplemented!() }
}
impl VOperatorW {
    // blocking Operator::write: the object holds exactly these bytes afterwards; a failed write leaves it as it was
    // (object stores publish an object atomically; for the fs service opendal writes to a temporary file first: ASSUMED)
    #[verifier::external_body]
    pub fn write(&mut self, path: &PathS, data: Vec<u8>) -> (r: Result<(), OpErr>)
        ensures r is Ok ==> final(self).files@ == old(self).files@.insert(path.key@, data@), r is Err ==> final(self).files@ == old(self).files@,
    { unimplemented!() }
    #[verifier::external_body]
    pub fn delete(&mut self, path: &PathS) -> (r: Result<(), OpErr>)
        ensures r is Ok ==> final(self).files@ == old(self).files@.remove(path.key@), r is Err ==> final(self).files@ == old(self).files@,
    { unimplemented!() }
}

// ---- object-store listings: the per-entry closures of OpenDALBackend::list / list_with_size ----
pub struct MetaO { pub file: bool, pub len: u64 }
impl MetaO {
    pub fn is_file(&self) -> (r: bool) ensures r == self.file, { self.file }
}
pub struct EntryO { pub meta: MetaO, pub name: NameL }
impl EntryO {
    pub fn metadata(&self) -> (r: &MetaO) ensures *r == self.meta, { &self.meta }
    pub fn name(&self) -> (r: &NameL) ensures *r == self.name, { &self.name }
}
pub fn vok_entry_o(r: Result<EntryO, OpErr>) -> (o: Option<EntryO>)
    ensures o == (match r { Ok(e) => Some(e), Err(_) => None::<EntryO> }),
{ match r { Ok(e) => Some(e), Err(_) => None } }
// the nested helper `length` of OpenDALBackend::list_with_size: content_length as u32 if it fits (closure that only logs): ELIDED
#[verifier::external_body]
pub fn vlength_o(entry: &MetaO, file_name: &NameL, tpe: FileType) -> (r: Option<u32>)
    ensures r matches Some(l) ==> entry.len == l, r is Some <==> entry.len <= u32::MAX,
{ unimplemented!() }

// ---- the nested helper write_local_file of LocalBackend::write_bytes: open(create, truncate, write) + set_len + io::copy + sync_all ----
pub struct VFileH { pub key: Ghost<PKey> }
pub struct VOpenOptions { pub c: bool, pub t: bool, pub w: bool }
impl VOpenOptions {
    pub fn new() -> (r: VOpenOptions) ensures !r.c && !r.t && !r.w, { VOpenOptions { c: false, t: false, w: false } }
    pub fn create(self, b: bool) -> (r: VOpenOptions) ensures r.c == b && r.t == self.t && r.w == self.w, { VOpenOptions { c: b, t: self.t, w: self.w } }
    pub fn truncate(self, b: bool) -> (r: VOpenOptions) ensures r.t == b && r.c == self.c && r.w == self.w, { VOpenOptions { c: self.c, t: b, w: self.w } }
    pub fn write(self, b: bool) -> (r: VOpenOptions) ensures r.w == b && r.c == self.c && r.t == self.t, { VOpenOptions { c: self.c, t: self.t, w: b } }
    // open(2) with O_WRONLY [| O_CREAT] [| O_TRUNC] (ASSUMED POSIX)
    #[verifier::external_body]
    pub fn open(self, path: &PathL, vfs: &mut VFsW) -> (r: Result<VFileH, IoError>)
        ensures
            r matches Ok(f) ==> self.w && (self.c || old(vfs).files@.dom().contains(path.key@)) && f.key@ == path.key@
                && final(vfs).files@ == old(vfs).files@.insert(path.key@, if self.t || !old(vfs).files@.dom().contains(path.key@) { Seq::<u8>::empty() } else { old(vfs).files@[path.key@] }),
            r is Err ==> final(vfs).files@ == old(vfs).files@,
    { unimplemented!() }
}
pub open spec fn zeros(n: int) -> Seq<u8> { Seq::new(n as nat, |i: int| 0u8) }
pub open spec fn after_set_len(old: Seq<u8>, n: int) -> Seq<u8> { if n <= old.len() { old.subrange(0, n) } else { old + zeros(n - old.len()) } }
pub open spec fn overwritten(old: Seq<u8>, data: Seq<u8>) -> Seq<u8> {
    if data.len() >= old.len() { data } else { data + old.subrange(data.len() as int, old.len() as int) }
}
impl VFileH {
    // File::set_len (ftruncate): cut or zero-extend to n bytes; the offset stays 0
    #[verifier::external_body]
    pub fn set_len(&self, n: u64, vfs: &mut VFsW) -> (r: Result<(), IoError>)
        requires old(vfs).files@.dom().contains(self.key@),
        ensures r is Ok ==> final(vfs).files@ == old(vfs).files@.insert(self.key@, after_set_len(old(vfs).files@[self.key@], n as int)),
                r is Err ==> final(vfs).files@ == old(vfs).files@,
    { unimplemented!() }
    // File::sync_all: durability only
    #[verifier::external_body]
    pub fn sync_all(&self) -> Result<(), IoError> { unimplemented!() }
}
// std::io::copy(&mut reader, &mut file) on a handle at offset 0 (ASSUMED): Ok => all bytes written from offset 0 on
#[verifier::external_body]
pub fn vio_copy(reader: &mut ReaderL, file: &mut VFileH, vfs: &mut VFsW) -> (r: Result<u64, IoError>)
    requires old(vfs).files@.dom().contains(old(file).key@),
    ensures
        final(file).key@ == old(file).key@,
        r is Ok ==> final(vfs).files@ == old(vfs).files@.insert(old(file).key@, overwritten(old(vfs).files@[old(file).key@], old(reader).data@)),
        forall|k: PKey| k != old(file).key@ ==> (#[trigger] final(vfs).files@.dom().contains(k)) == old(vfs).files@.dom().contains(k),
        forall|k: PKey| k != old(file).key@ && old(vfs).files@.dom().contains(k) ==> #[trigger] final(vfs).files@[k] == old(vfs).files@[k],
{ unimplemented!() }
