"""C20 — the directory backend is an exact map and publishes files atomically (kernel: LocalBackend's single calls)."""
from tools.extract import Unit, Rw

PROPERTY = "C20"
PRELUDE = ["../common/base.rs", "../common/io.rs", "local.rs"]
LB = "crates/backend/src/local.rs"
BE = "crates/core/src/backend.rs"
R_LOG = Rw("", "", count=None, kind="log", why="logging removed")
R_ERR = Rw("", "verr()", count=None, kind="err", why="RusticError construction (kind/message/context dropped)")
R_MAPERR = Rw("", "", count=None, kind="maperr", why=".map_err(<error building closure>) -> .vmap_err()")
R_LETCHAIN = Rw("", "", count=None, kind="letchain", why="let chains `if a && let P = e { .. }` (no else) -> nested ifs (their definition); Verus rejects let chains")
R_ATTRS = Rw("", "", count=None, kind="attrs", optional=True, why="derive/serde helper attributes removed")
WIO = dict(wrap_open="impl LocalIo {", wrap_close="}")
WW = dict(wrap_open="impl LocalW {", wrap_close="}")
WR = "impl ReadBackend for LocalBackend {"
WWB = "impl WriteBackend for LocalBackend {"

UNITS = [
    Unit(name="FileType", file=BE, kind="type", anchor="pub enum FileType {", attrs="#[derive(Clone, Copy, PartialEq, Eq, Structural)]", rewrites=[R_ATTRS]),
    # full read: exactly the bytes of the file named by (type, id)
    Unit(name="local_read_full", file=LB, anchor="fn read_full(&self, tpe: FileType, id: &Id) -> RusticResult<Bytes>", within=WR, ret_name="r", **WIO,
         functions=["<rustic_backend::local::LocalBackend as ReadBackend>::read_full"],
         rewrites=[R_LOG, R_MAPERR,
                   Rw(r"Ok\(fs::read\((?P<p>[^;]*?)\)\s*\.vmap_err\(\)\s*\?\s*\.into\(\)\)", r"{ let vdata = self.vfs_read(\g<p>).vmap_err()?; Ok(vbytes_of_vec(vdata)) }", regex=True,
                      why="std::fs::read -> ghost file-system stub; the expression `Ok(fs::read(..)?.into())` as two statements (Vec<u8> -> Bytes made explicit)"),
         ],
         contract="""
    ensures /*@full_read_returns_exactly_the_stored_bytes*/ r matches Ok(d) ==> self@.dom().contains(norm(tpe, *id)) && d.data@ == self@[norm(tpe, *id)],
"""),
    # ranged read: exactly the requested range, an error if the file is shorter
    Unit(name="local_read_partial", file=LB, anchor="fn read_partial(\n        &self,\n        tpe: FileType,\n        id: &Id,\n        _cacheable: bool,", within=WR, ret_name="r", **WIO,
         functions=["<rustic_backend::local::LocalBackend as ReadBackend>::read_partial"],
         rewrites=[R_LOG, R_MAPERR,
                   Rw("File::open(filename.clone())", "self.vopen(filename.clone())", why="File::open -> ghost file-system stub"),
                   Rw("offset.into()", "(offset as u64)", count=None, why="u32 -> u64 conversion -> cast"),
                   Rw(r"file\.seek\(SeekFrom::Start\((?P<e>[^;]*?)\)\)(?=\s*\.v?map_err)", r"vseek_start(&mut file, \g<e>)", regex=True, why="Seek::seek(SeekFrom::Start(..)) -> io model stub"),
                   Rw(r"vec!\[\s*0;\s*length\.try_into\(\)\s*\.vmap_err\(\)\?\s*\]", "vzeroed_vec(length as usize)", regex=True, why="vec![0; length.try_into()?] -> stub: `length` zero bytes (u32 -> usize is lossless on the supported targets)"),
                   Rw("file.read_exact(&mut vec)", "vstd_read_exact(&mut file, &mut vec)", why="Read::read_exact -> io model (fills the buffer or fails)"),
                   Rw("Ok(vec.into())", "Ok(vbytes_of_vec(vec))", why="Vec<u8> -> Bytes"),
         ],
         contract="""
    ensures
        /*@ranged_read_returns_exactly_that_range*/ r matches Ok(d) ==> self@.dom().contains(norm(tpe, *id)) && d.data@.len() == length
            && (length > 0 ==> offset + length <= self@[norm(tpe, *id)].len() && d.data@ =~= self@[norm(tpe, *id)].subrange(offset as int, offset + length)),
"""),
    # write: the file appears under its real name only complete (temporary name, then rename); a failed write leaves the
    # entry as it was; the non-atomic write helper is only ever pointed at the temporary name (precondition of its stub)
    Unit(name="local_write_bytes", file=LB, anchor="fn write_bytes(\n        &self,\n        tpe: FileType,\n        id: &Id,\n        _cacheable: bool,\n        content: BytesList,", within=WWB, ret_name="r", **WW,
         functions=["<rustic_backend::local::LocalBackend as WriteBackend>::write_bytes"],
         rewrites=[R_LOG, R_MAPERR, R_LETCHAIN,
                   Rw("content: BytesList,\n    ) -> RusticResult<()>", "content: BytesList, vfs: &mut VFsW,\n    ) -> RusticResult<()>", sig=True, why="ghost parameter: the repository directory as a map from names to bytes"),
                   Rw(r"fn write_local_file\(\s*filename: &Path,\s*mut reader: impl Read,\s*length: u64,\s*\) -> RusticResult<\(\)> \{.*?\n            Ok\(\(\)\)\n        \}\n", "", regex=True,
                      why="ELIDED: nested helper write_local_file (OpenOptions create+truncate+write, set_len, io::copy, sync_all) -> stub vwrite_local_file"),
                   Rw("fs::create_dir_all(&parent)", "vfs.create_dir_all(&parent)", why="std::fs::create_dir_all -> ghost file-system stub"),
                   Rw(r"parent\.join\(Self::filename\(tpe, id\) \+ \"-tmp-\"\)", "vtmp_name(&parent, tpe, id)", regex=True, why="temporary file name (string building) -> stub: a name that is never listed"),
                   Rw("let size = content.size();\n        let reader = content.reader();", "\n", why="DROPPED with the helper's arguments: size and reader of the content"),
                   Rw(r"write_local_file\(\s*&(?P<n>\w+),\s*reader,\s*size\.try_into\(\)\.expect\(\"size too large for u64\"\),[^\n]*\n\s*\)", r"vfs.vwrite_local_file(&\g<n>, &content)", regex=True,
                      why="write_local_file -> stub: complete on success, anything under THAT name on failure; REQUIRES a temporary name"),
                   Rw(r"fs::remove_file\(&(?P<n>\w+)\)", r"vfs.remove_file(&\g<n>)", regex=True, count=None, why="std::fs::remove_file -> ghost file-system stub"),
                   Rw(r"fs::rename\(&(?P<a>\w+), &(?P<b>\w+)\)", r"vfs.rename(&\g<a>, &\g<b>)", regex=True, why="std::fs::rename -> ghost file-system stub (atomic replace: ASSUMED)"),
         ],
         contract="""
    ensures
        /*@written_file_is_complete*/ r is Ok ==> final(vfs).files@.dom().contains(PKey::Entry(norm(tpe, *id))) && final(vfs).files@[PKey::Entry(norm(tpe, *id))] == content.data@,
        /*@failed_write_leaves_no_partial_file*/ r is Err ==> (final(vfs).files@.dom().contains(PKey::Entry(norm(tpe, *id))) == old(vfs).files@.dom().contains(PKey::Entry(norm(tpe, *id)))
            && (old(vfs).files@.dom().contains(PKey::Entry(norm(tpe, *id))) ==> final(vfs).files@[PKey::Entry(norm(tpe, *id))] == old(vfs).files@[PKey::Entry(norm(tpe, *id))])),
        /*@other_files_untouched_by_write*/ other_entries_untouched(old(vfs).files@, final(vfs).files@, norm(tpe, *id)),
"""),
    Unit(name="local_remove", file=LB, anchor="fn remove(&self, tpe: FileType, id: &Id, _cacheable: bool) -> RusticResult<()>", within=WWB, ret_name="r", **WW,
         functions=["<rustic_backend::local::LocalBackend as WriteBackend>::remove"],
         rewrites=[R_LOG, R_MAPERR, R_LETCHAIN,
                   Rw("_cacheable: bool) -> RusticResult<()>", "_cacheable: bool, vfs: &mut VFsW) -> RusticResult<()>", sig=True, why="ghost parameter: the repository directory"),
                   Rw(r"fs::remove_file\(&(?P<n>\w+)\)", r"vfs.remove_file(&\g<n>)", regex=True, why="std::fs::remove_file -> ghost file-system stub")],
         contract="""
    ensures
        /*@removed_file_is_gone*/ r is Ok ==> !final(vfs).files@.dom().contains(PKey::Entry(norm(tpe, *id))),
        /*@failed_remove_changes_nothing*/ r is Err ==> final(vfs).files@ == old(vfs).files@,
        /*@other_files_untouched_by_remove*/ other_entries_untouched(old(vfs).files@, final(vfs).files@, norm(tpe, *id)),
"""),
]

UNITS += [
    # listing with sizes: the closure deciding, per directory entry of the walk, whether and how it is reported
    Unit(name="local_list_entry", file=LB, kind="block", within="fn list_with_size(&self, tpe: FileType) -> RusticResult<Vec<(Id, u32)>>",
         anchor="@closure:.filter_map(|r|",
         block_sig="fn local_list_entry(r: Result<DirEntryL, WalkErr>, tpe: FileType) -> (res: Option<(Id, u32)>)",
         block_tail="",
         functions=["<rustic_backend::local::LocalBackend as ReadBackend>::list_with_size (per-entry closure of the directory walk)"],
         rewrites=[Rw(r"r\s*\.inspect_err\(\|err\| error!\([^;]*?\)\)\s*\.ok\(\)\?", "vok_entry(r)?", regex=True, why="Result::inspect_err(log).ok() -> proved helper"),
                   Rw("entry.file_name().to_string_lossy()", "entry.vfile_name()", why="OsStr -> str conversion of the entry's name -> stub"),
         ],
         contract="""
    ensures
        // reported: only regular files whose NAME is an id (temporary and foreign names are not), under that id, with the true size
        /*@only_regular_files_named_by_an_id_are_listed_with_their_size*/ res matches Some(x) ==> r matches Ok(e) && e.is_file && NAME_ID(e.name) == Some(x.0) && x.1 == e.len@,
        // and every such file IS reported (if its metadata can be read and its size fits the u32 the interface has)
        /*@every_such_file_is_listed*/ r matches Ok(e) && e.is_file && NAME_ID(e.name) is Some && e.meta_ok@ && e.len@ <= u32::MAX ==> res is Some,
"""),
]

UNITS += [
    # plain listing: the same decision without the size
    Unit(name="local_list_entry_id", file=LB, kind="block", within="fn list(&self, tpe: FileType) -> RusticResult<Vec<Id>>",
         anchor="@closure:.filter_map(|r|",
         block_sig="fn local_list_entry_id(r: Result<DirEntryL, WalkErr>, tpe: FileType) -> (res: Option<Id>)",
         block_tail="",
         functions=["<rustic_backend::local::LocalBackend as ReadBackend>::list (per-entry closure of the directory walk)"],
         rewrites=[Rw(r"r\s*\.inspect_err\(\|err\| error!\([^;]*?\)\)\s*\.ok\(\)\?", "vok_entry(r)?", regex=True, why="Result::inspect_err(log).ok() -> proved helper"),
                   Rw("entry.file_name().to_string_lossy()", "entry.vfile_name()", why="OsStr -> str conversion of the entry's name -> stub"),
         ],
         contract="""
    ensures
        /*@exactly_the_regular_files_named_by_an_id_are_listed*/ res == (match r { Ok(e) => if e.is_file { NAME_ID(e.name) } else { None::<Id> }, Err(_) => None::<Id> }),
"""),
]

OD = "crates/backend/src/opendal.rs"
WOD = dict(wrap_open="impl OpenDalIo {", wrap_close="}")
WROD = "impl ReadBackend for OpenDALBackend {"
UNITS += [
    Unit(name="opendal_read_full", file=OD, anchor="fn read_full(&self, tpe: FileType, id: &Id) -> RusticResult<Bytes>", within=WROD, ret_name="r", **WOD,
         functions=["<rustic_backend::opendal::OpenDALBackend as ReadBackend>::read_full"],
         rewrites=[R_LOG, R_MAPERR],
         contract="""
    ensures /*@object_store_full_read_returns_exactly_the_stored_bytes*/ r matches Ok(d) ==> self.operator.files@.dom().contains(norm(tpe, *id)) && d.data@ == self.operator.files@[norm(tpe, *id)],
"""),
    Unit(name="opendal_read_partial", file=OD, anchor="fn read_partial(\n        &self,\n        tpe: FileType,\n        id: &Id,\n        _cacheable: bool,", within=WROD, ret_name="r", **WOD,
         functions=["<rustic_backend::opendal::OpenDALBackend as ReadBackend>::read_partial"],
         rewrites=[R_LOG, R_MAPERR,
                   Rw(r"u64::from\((?P<e>[^()]*)\)", r"((\g<e>) as u64)", regex=True, count=None, why="u64::from(u32 expression) -> cast (the u32 arithmetic inside stays as written)"),
                   Rw(r"ReadOptions \{\s*range: range\.into\(\),\s*\.\.Default::default\(\)\s*\}", "vread_options(range)", regex=True, why="ReadOptions with a byte range (struct update from Default) -> stub"),
         ],
         contract="""
    ensures
        /*@object_store_ranged_read_returns_exactly_that_range*/ r matches Ok(d) ==> self.operator.files@.dom().contains(norm(tpe, *id)) && offset + length <= self.operator.files@[norm(tpe, *id)].len()
            && d.data@ =~= self.operator.files@[norm(tpe, *id)].subrange(offset as int, offset + length),
    // (implicit obligation: no arithmetic overflow for ANY offset and length -- an out-of-range request must be an error, not a panic)
"""),
]

WWOD = "impl WriteBackend for OpenDALBackend {"
UNITS += [
    Unit(name="opendal_write_bytes", file=OD, anchor="fn write_bytes(\n        &self,\n        tpe: FileType,\n        id: &Id,\n        _cacheable: bool,\n        content: BytesList,", within=WWOD, ret_name="r", **WOD,
         functions=["<rustic_backend::opendal::OpenDALBackend as WriteBackend>::write_bytes"],
         rewrites=[R_LOG, R_MAPERR,
                   Rw("content: BytesList,\n    ) -> RusticResult<()>", "content: BytesList, vop: &mut VOperatorW,\n    ) -> RusticResult<()>", sig=True, why="ghost parameter: the object store as a map (interior mutability of the operator made explicit)"),
                   Rw("self.operator.write(", "vop.write(", why="operator -> ghost map parameter")],
         contract="""
    ensures
        /*@object_store_write_stores_exactly_the_content_under_this_key*/ r is Ok ==> final(vop).files@ == old(vop).files@.insert(norm(tpe, *id), content.data@),
        /*@failed_object_store_write_changes_nothing*/ r is Err ==> final(vop).files@ == old(vop).files@,
"""),
    Unit(name="opendal_remove", file=OD, anchor="fn remove(&self, tpe: FileType, id: &Id, _cacheable: bool) -> RusticResult<()>", within=WWOD, ret_name="r", **WOD,
         functions=["<rustic_backend::opendal::OpenDALBackend as WriteBackend>::remove"],
         rewrites=[R_LOG, R_MAPERR,
                   Rw("_cacheable: bool) -> RusticResult<()>", "_cacheable: bool, vop: &mut VOperatorW) -> RusticResult<()>", sig=True, why="ghost parameter: the object store as a map"),
                   Rw("self.operator.delete(", "vop.delete(", why="operator -> ghost map parameter")],
         contract="""
    ensures
        /*@object_store_remove_removes_exactly_this_key*/ r is Ok ==> final(vop).files@ == old(vop).files@.remove(norm(tpe, *id)),
        /*@failed_object_store_remove_changes_nothing*/ r is Err ==> final(vop).files@ == old(vop).files@,
"""),
]

R_OKO = Rw(r"r\s*\.inspect_err\(\|err\| error!\([^;]*?\)\)\s*\.ok\(\)\?", "vok_entry_o(r)?", regex=True, why="Result::inspect_err(log).ok() -> proved helper")
UNITS += [
    Unit(name="opendal_list_entry", file=OD, kind="block", within="fn list_with_size(&self, tpe: FileType) -> RusticResult<Vec<(Id, u32)>>",
         anchor="@closure:.filter_map(|r|",
         block_sig="fn opendal_list_entry(r: Result<EntryO, OpErr>, tpe: FileType) -> (res: Option<(Id, u32)>)",
         block_tail="",
         functions=["<rustic_backend::opendal::OpenDALBackend as ReadBackend>::list_with_size (per-entry closure of the lister)"],
         rewrites=[R_OKO, Rw("length(metadata, name, tpe)", "vlength_o(metadata, name, tpe)", why="nested helper `length` (u64 -> u32 conversion with a logging closure) -> stub")],
         contract="""
    ensures
        /*@object_store_lists_only_files_named_by_an_id_with_their_size*/ res matches Some(x) ==> r matches Ok(e) && e.meta.file && NAME_ID(e.name) == Some(x.0) && x.1 == e.meta.len,
        /*@object_store_lists_every_such_file*/ r matches Ok(e) && e.meta.file && NAME_ID(e.name) is Some && e.meta.len <= u32::MAX ==> res is Some,
"""),
    Unit(name="opendal_list_entry_id", file=OD, kind="block", within="fn list(&self, tpe: FileType) -> RusticResult<Vec<Id>>",
         anchor="@closure:.filter_map(|r|",
         block_sig="fn opendal_list_entry_id(r: Result<EntryO, OpErr>, tpe: FileType) -> (res: Option<Id>)",
         block_tail="",
         functions=["<rustic_backend::opendal::OpenDALBackend as ReadBackend>::list (per-entry closure of the lister)"],
         rewrites=[R_OKO],
         contract="""
    ensures
        /*@object_store_lists_exactly_the_files_named_by_an_id*/ res == (match r { Ok(e) => if e.meta.file { NAME_ID(e.name) } else { None::<Id> }, Err(_) => None::<Id> }),
"""),
]

UNITS += [
    # the nested helper of LocalBackend::write_bytes (seen as a stub by the unit local_write_bytes): on success the file holds
    # EXACTLY the content
    Unit(name="local_write_local_file", file=LB, anchor="fn write_local_file(\n            filename: &Path,", within="impl WriteBackend for LocalBackend {", ret_name="r",
         functions=["<rustic_backend::local::LocalBackend as WriteBackend>::write_bytes::write_local_file (nested helper)"],
         rewrites=[R_LOG, R_MAPERR,
                   Rw("filename: &Path,\n            mut reader: impl Read,\n            length: u64,\n        ) -> RusticResult<()>", "filename: &PathL,\n            reader0: ReaderL,\n            length: u64, vfs: &mut VFsW,\n        ) -> RusticResult<()>", sig=True, why="path / reader -> stubs; ghost parameter: the repository directory"),
                   Rw("fs::OpenOptions::new()", "VOpenOptions::new()", why="std::fs::OpenOptions -> the flags it collects"),
                   Rw(".open(filename)", ".open(filename, vfs)", why="ghost parameter: the repository directory"),
                   Rw("file.set_len(length)", "file.set_len(length, vfs)", why="ghost parameter"),
                   Rw("std::io::copy(&mut reader, &mut file)", "vio_copy(&mut reader, &mut file, vfs)", why="std::io::copy -> stub (writes all bytes from offset 0 or fails)"),
         ],
         hints=[("before", "let mut file = ", "            let mut reader = reader0;")],
         contract="""
    requires length == reader0.data@.len(),   // the caller passes content.size()
    ensures
        /*@written_file_holds_exactly_the_content*/ r is Ok ==> final(vfs).files@.dom().contains(filename.key@) && final(vfs).files@[filename.key@] =~= reader0.data@,
        /*@write_helper_touches_only_its_file*/ forall|k: PKey| k != filename.key@ ==> ((#[trigger] final(vfs).files@.dom().contains(k)) == old(vfs).files@.dom().contains(k)),
"""),
]

KANI = []
META = {"not_covered": [
    "listings: the directory walk itself (walkdir: every file of the type's directory is yielded once), the Config special case of both listings and the name parser Id::from_str (which names are ids: uninterpreted) are NOT decided; the per-entry closures of list and list_with_size ARE units (regular files named by an id, with their true size; the nested helper `length` elided)",
    "the path building itself (base_path / filename / path: PathBuf joins, hex strings): stubs naming the file of a (type, id); Config files ignore the id",
    "the nested helper write_local_file is a stub inside local_write_bytes and a unit of its own (local_write_local_file: OpenOptions as flags, open/set_len/io::copy with POSIX semantics assumed); fs::rename assumed atomic (POSIX); crash behaviour of the file system itself",
    "of the generic object-store adapter (opendal.rs) read_full / read_partial / write_bytes / remove ARE units over the operator as a map (opendal itself, its fs and memory services, retry/throttle layers: assumed); the per-entry closures of its two listings as well; the lister itself (which objects it yields), the Config special cases, create and the path strings are not; rclone and rest backends; the in-memory test backend",
    "post-create / post-delete user commands (call_command): assumed not to touch the repository files",
]}
