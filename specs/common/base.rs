// ===== common prelude (hand written; every `external_body` / `uninterp` here is an ASSUMPTION
// and is copied into the evidence by the assumption scanner) =====
global size_of usize == 8;

// --- error values: extraction rewrite R-err maps every `RusticError::new(..)/with_source(..)`
// expression (with its chained context calls) to `verr()`: kind, message and context are dropped.
pub struct RusticError { pub _opaque: u8 }
pub type RusticResult<T> = Result<T, Box<RusticError>>;

#[verifier::external_body]
pub fn verr() -> (e: Box<RusticError>)
{ unimplemented!() }

// --- `.map_err(|err| <build error>)`: extraction rewrite R-maperr maps it to `.vmap_err()`:
// Ok values pass through unchanged, every Err becomes an opaque error.
pub trait VMapErr<T>: Sized { // keep-vis
    spec fn ok_part(self) -> Option<T>;
    fn vmap_err(self) -> (r: Result<T, Box<RusticError>>)
        ensures r is Ok <==> self.ok_part() is Some,
                r matches Ok(v) ==> self.ok_part() == Some(v);
}
impl<T, E> VMapErr<T> for Result<T, E> {
    open spec fn ok_part(self) -> Option<T> { match self { Ok(v) => Some(v), Err(_) => None } }
    #[verifier::external_body]
    fn vmap_err(self) -> (r: Result<T, Box<RusticError>>) { unimplemented!() }
}

// --- integer TryInto: rewrite `.try_into()` -> `.vtry_into()`; Ok iff the value fits, value preserved
pub struct ConvErr { pub _opaque: u8 }
pub trait VTryInto<U>: Sized { // keep-vis
    spec fn vfits(self) -> bool;
    spec fn vconv(self) -> U;
    fn vtry_into(self) -> (r: Result<U, ConvErr>)
        ensures r is Ok <==> self.vfits(),
                r matches Ok(v) ==> v == self.vconv();
}
impl VTryInto<u32> for usize {
    open spec fn vfits(self) -> bool { self <= 0xFFFF_FFFF }
    open spec fn vconv(self) -> u32 { self as u32 }
    fn vtry_into(self) -> (r: Result<u32, ConvErr>) { if self <= 0xFFFF_FFFF { Ok(self as u32) } else { Err(ConvErr { _opaque: 0 }) } }
}
impl VTryInto<u64> for usize {
    open spec fn vfits(self) -> bool { true }
    open spec fn vconv(self) -> u64 { self as u64 }
    fn vtry_into(self) -> (r: Result<u64, ConvErr>) { Ok(self as u64) }
}
impl VTryInto<usize> for u64 {
    open spec fn vfits(self) -> bool { true }
    open spec fn vconv(self) -> usize { self as usize }
    fn vtry_into(self) -> (r: Result<usize, ConvErr>) { Ok(self as usize) }
}
impl VTryInto<u32> for u64 {
    open spec fn vfits(self) -> bool { self <= 0xFFFF_FFFF }
    open spec fn vconv(self) -> u32 { self as u32 }
    fn vtry_into(self) -> (r: Result<u32, ConvErr>) { if self <= 0xFFFF_FFFF { Ok(self as u32) } else { Err(ConvErr { _opaque: 0 }) } }
}

// --- std contracts vstd does not ship (ASSUMED, taken from the std documentation); they keep small edits of the
//     extracted code inside the verifiable subset
pub assume_specification<T>[ Option::<T>::or ](a: Option<T>, b: Option<T>) -> (r: Option<T>)
    ensures r == (if a is Some { a } else { b });
pub assume_specification<T, U>[ Option::<T>::and ](a: Option<T>, b: Option<U>) -> (r: Option<U>)
    ensures r == (if a is Some { b } else { None::<U> });
pub assume_specification<T>[ Option::<T>::xor ](a: Option<T>, b: Option<T>) -> (r: Option<T>)
    ensures r == (if a is Some && b is None { a } else if a is None && b is Some { b } else { None::<T> });
pub assume_specification<T>[ bool::then_some::<T> ](b: bool, t: T) -> (r: Option<T>)
    ensures r == (if b { Some(t) } else { None::<T> });
pub assume_specification<T, E>[ Result::<T, E>::unwrap_or ](a: Result<T, E>, d: T) -> (r: T)
    ensures r == (match a { Ok(v) => v, Err(_) => d });
