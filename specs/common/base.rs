// ===== common prelude (hand written; every `external_body` / `uninterp` here is an ASSUMPTION
// and is copied into the evidence by the assumption scanner) =====
global size_of usize == 8;

// --- error values: extraction rewrite R-err maps every `RusticError::new(..)/with_source(..)`
// expression (with its chained context calls) to `verr()`: kind, message and context are dropped.
pub struct RusticError { pub _opaque: u8 }
pub type RusticResult<T> = Result<T, Box<RusticError>>;

#[verifier::external_body]
pub fn verr() -> (e: Box<RusticError>)
{ unimplemented!() }
