// --- std::io::Read, as an abstract byte stream (ASSUMED contract of the std trait):
// the reader owns a ghost sequence `remaining()`; `read` delivers ANY non-empty prefix that fits
// (nondeterministic short reads), returns Ok(0) iff the stream is exhausted (or the buffer is
// empty), and on Err has consumed nothing ("If an error is returned then it must be guaranteed
// that no bytes were read").  `take(n).read_to_end(v)` appends min(n, |remaining|) bytes
// (it retries Interrupted itself).
pub struct IoError { pub _opaque: u8 }

#[verifier::external_body]
pub fn vstd_is_interrupted(e: &IoError) -> (b: bool)
{ unimplemented!() }

pub trait VReader: Sized {
    spec fn remaining(&self) -> Seq<u8>;
}

#[verifier::external_body]
pub fn vstd_take_read_to_end<R: VReader>(reader: &mut R, limit: u64, v: &mut Vec<u8>) -> (r: Result<usize, IoError>)
    ensures
        match r {
            Ok(n) => {
                &&& n as int == (if (limit as int) < old(reader).remaining().len() { limit as int } else { old(reader).remaining().len() as int })
                &&& final(v)@ == old(v)@ + old(reader).remaining().subrange(0, n as int)
                &&& final(reader).remaining() == old(reader).remaining().subrange(n as int, old(reader).remaining().len() as int)
            },
            Err(_) => true,
        },
{ unimplemented!() }

#[verifier::external_body]
pub fn vstd_read<R: VReader>(reader: &mut R, buf: &mut Vec<u8>) -> (r: Result<usize, IoError>)
    ensures
        final(buf)@.len() == old(buf)@.len(),
        match r {
            Ok(n) => {
                &&& n <= old(buf)@.len()
                &&& n <= old(reader).remaining().len()
                &&& (n == 0 <==> (old(reader).remaining().len() == 0 || old(buf)@.len() == 0))
                &&& final(buf)@.subrange(0, n as int) == old(reader).remaining().subrange(0, n as int)
                &&& final(reader).remaining() == old(reader).remaining().subrange(n as int, old(reader).remaining().len() as int)
            },
            Err(_) => final(reader).remaining() == old(reader).remaining(),
        },
{ unimplemented!() }

// `read_exact(buf)`: fills the whole buffer from the stream or fails (UnexpectedEof when fewer bytes are left); it
// retries Interrupted itself.  On Err the amount consumed is unspecified.
#[verifier::external_body]
pub fn vstd_read_exact<R: VReader>(reader: &mut R, buf: &mut Vec<u8>) -> (r: Result<(), IoError>)
    ensures
        final(buf)@.len() == old(buf)@.len(),
        r is Ok ==> old(buf)@.len() <= old(reader).remaining().len()
            && final(buf)@ == old(reader).remaining().subrange(0, old(buf)@.len() as int)
            && final(reader).remaining() == old(reader).remaining().subrange(old(buf)@.len() as int, old(reader).remaining().len() as int),
{ unimplemented!() }
