#!/usr/bin/env python3
"""collateral.py [--prop P]: for every Verus-engine mutation, list failed obligations that lie in units whose extracted
text the mutation did NOT change.  Such a 'collateral' failure means a proof depends on its context (solver trigger
choice) -- on an unrelated, behaviour-preserving edit it would be a false alarm.  Expected output: none."""
import os, re, sys, subprocess, shutil, glob, argparse
ROOT = os.path.dirname(os.path.dirname(os.path.abspath(__file__)))
sys.path.insert(0, ROOT)
from mutations import MUTATIONS
SCR = "/scratch/coll"


def units_of(path):
    """unit name -> text, from the '// ---- unit NAME' markers of an assembled file."""
    txt = open(path, encoding="utf-8").read()
    parts = re.split(r"(?m)^// ---- unit (\w+)[^\n]*\n", txt)
    d = {"<prelude>": parts[0]}
    for i in range(1, len(parts), 2):
        d[parts[i]] = d.get(parts[i], "") + parts[i + 1]
    return d


def build(prop, repo, out):
    env = dict(os.environ, VERIF_REPO=repo, VERIF_OUT=out)
    p = subprocess.run("%s/check %s --tier quick --no-kani" % (ROOT, prop), shell=True, capture_output=True, text=True, env=env)
    return p.returncode, p.stdout


def main():
    ap = argparse.ArgumentParser(); ap.add_argument("--prop"); a = ap.parse_args()
    base = {}
    n = bad = 0
    for mu in MUTATIONS:
        if mu.get("engine", "verus") != "verus" or (a.prop and mu["prop"] != a.prop):
            continue
        prop = mu["prop"]
        if prop not in base:
            out = os.path.join(SCR, "base-" + prop)
            shutil.rmtree(out, ignore_errors=True)
            build(prop, "/repo", out)
            base[prop] = {os.path.basename(os.path.dirname(f)): units_of(f) for f in glob.glob(out + "/build/*/units.rs")}
        wd = os.path.join(SCR, mu["id"])
        shutil.rmtree(wd, ignore_errors=True); os.makedirs(wd + "/crates/core"); os.makedirs(wd + "/crates/backend")
        subprocess.run("cp -r /repo/crates/core/src %s/crates/core/ && cp -r /repo/crates/backend/src %s/crates/backend/" % (wd, wd), shell=True)
        f = os.path.join(wd, mu["file"]); src = open(f).read()
        if src.count(mu["old"]) != 1:
            shutil.rmtree(wd, ignore_errors=True); continue
        open(f, "w").write(src.replace(mu["old"], mu["new"]))
        rc, out = build(prop, wd, wd + "/_out")
        changed = set()
        types_changed = False
        for g in glob.glob(wd + "/_out/build/*/units.rs"):
            b = base[prop].get(os.path.basename(os.path.dirname(g)), {})
            for k, v in units_of(g).items():
                if b.get(k) != v:
                    changed.add(k)
                    if not re.search(r"\bfn\s+\w+", v):
                        types_changed = True   # a constant / type unit changed: every user of it legitimately depends on it
        failing = set(re.findall(r"failed obligation: \w+\.(\w+)\.", out))
        coll = [] if types_changed else sorted(failing - changed)
        n += 1
        if coll:
            bad += 1
            print("COLLATERAL %s: units %s fail although only %s changed" % (mu["id"], coll, sorted(changed)))
        shutil.rmtree(wd, ignore_errors=True)
    print("collateral scan: %d mutations, %d with collateral failures" % (n, bad))
    shutil.rmtree(SCR, ignore_errors=True)


if __name__ == "__main__":
    main()
