#!/bin/bash
# confirm_seeded.sh <seeded-dir-name>: independent confirmation of a seeded change in a scratch worktree:
#  (1) demo FAILS with the patch, (2) demo PASSES without, (3) the crate's lib + integration tests pass with the patch.
set -u
ID=$1
D=/verif/seeded/$ID
W=/scratch/confirm-$ID
export CARGO_NET_OFFLINE=true CARGO_TARGET_DIR=/scratch/replay-target
APPEND=$(python3 -c "import json;print(json.load(open('$D/meta.json'))['append_to'])")
case "$APPEND" in
  crates/core/tests/*) TARGS="--test integration" ;;
  *) TARGS="--lib" ;;
esac
PKG=rustic_core
case "$APPEND" in crates/backend/*) PKG=rustic_backend ;; esac
git -C /repo worktree add --detach "$W" HEAD >/dev/null 2>&1 || exit 3
cd "$W"
run_demo() { cargo test -p $PKG --offline $TARGS seeded_demo 2>&1 | grep -E "^test result|panicked at" | head -5; }
cat "$D/demo_test.rs" >> "$APPEND"
echo "--- demo WITHOUT patch:"; run_demo
git apply "$D/patch.diff" || { echo "patch does not apply"; }
echo "--- demo WITH patch:"; run_demo
git checkout -- "$APPEND"; git apply "$D/patch.diff" 2>/dev/null
[ "$PKG" = rustic_backend ] && { echo "--- existing tests WITH patch (rustic_backend):"; cargo test -p rustic_backend --offline 2>&1 | grep -E "^test result|FAILED|failed" | head -8; }
echo "--- existing tests WITH patch (lib):"; cargo test -p rustic_core --offline --lib 2>&1 | grep -E "^test result|FAILED|failed" | head -8
echo "--- existing tests WITH patch (integration):"; cargo test -p rustic_core --offline --test integration -- --test-threads=4 2>&1 | grep -E "^test result|FAILED|failed" | head -12
cd /; git -C /repo worktree remove --force "$W"
