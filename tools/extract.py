"""Mechanical extraction of items from /repo into a Verus file.

A *unit* is one item of the repository (fn, method, struct, enum, or a
statement block inside a fn).  Its text is sliced verbatim out of the working
tree, passed through the unit's declared rewrites (each must match the
declared number of times, else LostAnchor), and spliced with the contract
text of the spec.  Rewrites preserve the number of lines, so every line of the
emitted body maps to exactly one source line of /repo; spliced spec text sits
on lines of its own.
"""
import os
import re
from dataclasses import dataclass, field
from typing import List, Optional, Tuple, Dict

from .rustlex import (LostAnchor, mask, match_brace, find_unique, line_of,
                      locate_item, loop_headers, body_open)

REPO = os.environ.get("VERIF_REPO", "/repo")


@dataclass
class Rw:
    """One rewrite.  `pat` is a literal unless regex=True.  `count`: exact
    number of matches required (None = at least one).  `why` names the
    dependency whose call is replaced (goes to the evidence as an assumption
    source)."""
    pat: str
    rep: str
    count: Optional[int] = 1
    regex: bool = False
    why: str = ""
    sig: bool = False  # apply to the signature instead of the body
    optional: bool = True   # zero matches allowed: an un-rewritten call is a front-end error (never a false 'verified')
    strict: bool = False    # opt-in: a count mismatch is a lost anchor
    kind: str = ""  # "" (literal/regex) | "err" (R-err) | "log" (R-log)


ERR_CHAIN = ("attach_context", "ask_report", "attach_error_code", "attach_source", "append_guidance_line", "overwrite_kind")
LOG_MACROS = ("trace", "debug", "info", "warn", "error")


def _rewrite_errs(text: str, rep: str):
    """R-err: every expression `RusticError::new(..)` / `RusticError::with_source(..)` including its
    chained builder calls is replaced by `rep` (default `verr()`).  Line count preserved."""
    cnt = 0
    while True:
        m = mask(text)
        mm = re.search(r"RusticError::(new|with_source)\s*\(", m)
        if not mm:
            break
        start = mm.start()
        end = match_brace(m, mm.end() - 1) + 1
        while True:
            cm = re.match(r"\s*\.(%s)\s*\(" % "|".join(ERR_CHAIN), m[end:])
            if not cm:
                break
            end = match_brace(m, end + cm.end() - 1) + 1
        old = text[start:end]
        text = text[:start] + rep + "\n" * old.count("\n") + text[end:]
        cnt += 1
    return text, cnt


def _strip_attrs(text: str):
    """R-attrs: remove every `#[...]` / `#![...]` attribute inside the item (serde/clap/derive helper
    attributes mean nothing without their proc macros).  Line count preserved."""
    cnt = 0
    pos = 0
    while True:
        m = mask(text)
        mm = re.compile(r"#!?\[").search(m, pos)
        if not mm:
            break
        end = match_brace(m, mm.end() - 1) + 1
        old = text[mm.start():end]
        text = text[:mm.start()] + "\n" * old.count("\n") + text[end:]
        pos = mm.start()
        cnt += 1
    return text, cnt


def _rewrite_maperr(text: str):
    """R-maperr: `.map_err(<closure or fn>)` -> `.vmap_err()` (extension trait in common/base.rs: keeps
    Ok values, maps every Err to an opaque error).  The error-mapping closure only builds the error
    value.  Line count preserved."""
    cnt = 0
    pos = 0
    while True:
        m = mask(text)
        mm = re.compile(r"\.map_err\s*\(").search(m, pos)
        if not mm:
            break
        end = match_brace(m, mm.end() - 1) + 1
        old = text[mm.start():end]
        text = text[:mm.start()] + ".vmap_err()" + "\n" * old.count("\n") + text[end:]
        pos = mm.start() + 5
        cnt += 1
    return text, cnt


def _rewrite_letchains(text: str):
    """R-letchain: `if c1 && let P = E && c3 { body }` (no else branch) -> `if c1 { if let P = E { if c3 { body }}}`.
    Semantically identical for if-without-else (the definition of let chains); Verus rejects let chains.
    Line count preserved."""
    cnt = 0
    pos = 0
    while True:
        m = mask(text)
        mm = re.compile(r"(?<![A-Za-z0-9_])if\s").search(m, pos)
        if not mm:
            break
        # `else if` chains are left alone
        j = mm.end()
        depth = 0
        brace = -1
        while j < len(m):
            ch = m[j]
            if ch in "([":
                j = match_brace(m, j) + 1
                continue
            if ch == "{":
                brace = j
                break
            if ch == ";":
                break
            j += 1
        pos = mm.end()
        if brace < 0:
            continue
        cond = text[mm.end():brace]
        cm = m[mm.end():brace]
        # split at top-level &&
        parts, start, k, d = [], 0, 0, 0
        while k < len(cm):
            if cm[k] in "([":
                k = match_brace(cm, k) + 1
                continue
            if cm.startswith("&&", k):
                parts.append(cond[start:k])
                start = k + 2
                k += 2
                continue
            k += 1
        parts.append(cond[start:])
        if len(parts) < 2 or not any(re.match(r"\s*let\s", p_) for p_ in parts):
            continue
        close = match_brace(m, brace)
        after = m[close + 1:close + 40].lstrip()
        before = m[max(0, mm.start() - 8):mm.start()]
        if after.startswith("else") or before.rstrip().endswith("else"):
            raise LostAnchor("let chain with an else branch cannot be unnested mechanically")
        new_head = "if " + " { if ".join(p_.strip(" ") if "\n" not in p_ else p_ for p_ in parts)
        # keep the newline count of the original condition
        new_head = "if " + " { if ".join(p_.strip(" ") for p_ in parts)
        extra = "}" * (len(parts) - 1)
        text = text[:mm.start()] + new_head + " " + text[brace:close + 1] + extra + text[close + 1:]
        cnt += 1
        pos = mm.start() + 3
    return text, cnt


def _rewrite_dropargs(text: str, prefix: str, rep_args: str = ""):
    """R-dropargs: `<prefix>(<anything balanced>)` -> `<prefix>(<rep_args>)`: the argument expression (an
    error/report value built only for the message) is dropped.  Line count preserved."""
    cnt = 0
    pos = 0
    while True:
        m = mask(text)
        k = m.find(prefix + "(", pos)
        if k < 0:
            break
        open_idx = k + len(prefix)
        end = match_brace(m, open_idx)
        old = text[open_idx + 1:end]
        text = text[:open_idx + 1] + rep_args + "\n" * old.count("\n") + text[end:]
        pos = open_idx + 1
        cnt += 1
    return text, cnt


def _rewrite_folds(text: str):
    """R-fold: `E.iter().fold(INIT, |acc, x| BODY)` -> the definition of Iterator::fold over a slice:
       `({ let mut vacc = INIT; for x in itf: E.iter() { vacc = { let acc = vacc; BODY }; } vacc })`  (same lines;
    the loop gets its invariant through the unit's `loops`)."""
    cnt = 0
    pos = 0
    while True:
        m = mask(text)
        mm = re.compile(r"(?P<recv>[A-Za-z_][\w.]*)\s*\.iter\(\)\s*\.fold\(").search(m, pos)
        if not mm:
            break
        op = mm.end() - 1
        cl = match_brace(m, op)
        inner = text[op + 1:cl]
        minner = m[op + 1:cl]
        # split INIT , |acc, x| BODY at the first top-level comma
        depth = 0
        k = 0
        comma = -1
        while k < len(minner):
            c = minner[k]
            if c in "([{":
                depth += 1
            elif c in ")]}":
                depth -= 1
            elif c == "," and depth == 0:
                comma = k
                break
            k += 1
        cm = re.match(r"\s*\|\s*(?P<acc>\w+)\s*,\s*(?P<x>\w+)\s*\|", minner[comma + 1:]) if comma >= 0 else None
        if not cm:
            pos = mm.end()
            continue
        init = inner[:comma]
        body = inner[comma + 1 + cm.end():].rstrip()
        if body.endswith(","):
            body = body[:-1]
        rep = "({ let mut vacc = %s; for %s in itf: %s.iter() { vacc = { let %s = vacc; %s }; } vacc })" % (
            init.strip("\n"), cm.group("x"), text[mm.start("recv"):mm.end("recv")], cm.group("acc"), body)
        old = text[mm.start():cl + 1]
        need = old.count("\n") - rep.count("\n")
        if need < 0:
            pos = mm.end()
            continue
        text = text[:mm.start()] + rep + "\n" * need + text[cl + 1:]
        pos = mm.start() + len(rep)
        cnt += 1
    return text, cnt


def _rewrite_try_for_each(text: str, rep: str):
    """R-tryforeach: `let NAME = RECV.try_for_each(|x| BODY);` -> the definition of Iterator::try_for_each (call the
    closure on every item in order, stop at the first Err and return it):
       `let NAME = { let vrecv = RECV; let vf = |x: ARGTY| -> (q: RETTY) ENSURES { BODY }; let mut vst: RETTY = Ok(());
                     for x in itf: vrecv { vst = vf(x); if vst.is_err() { break; } } vst };`
    A trailing `.and_then(|()| E)` (Result::and_then on the unit result) becomes `match vst { Ok(()) => E, Err(e) => Err(e) }`.
    `rep` = "ARGTY ;; RETTY ;; ENSURES" (the closure's types -- replacing any annotation written in the source -- and
    its contract, PROVED from BODY); same lines; the loop gets its invariant through the unit's `loops`."""
    argty, retty, ens = [t.strip() for t in rep.split(";;")]
    cnt = 0
    pos = 0
    while True:
        m = mask(text)
        k = m.find(".try_for_each(", pos)
        if k < 0:
            break
        op = k + len(".try_for_each")
        cl = match_brace(m, op)
        cm = re.match(r"\s*\|\s*(?P<x>\w+)\s*(?::[^|]*)?\|\s*(?:->[^{]*(?=\{))?", m[op + 1:cl])
        s = m.rfind("let ", 0, k)
        lm = re.match(r"let\s+(?:mut\s+)?\w+\s*(?::[^=;]+)?=\s*", m[s:]) if s >= 0 else None
        if not cm or not lm or ";" in m[s:k]:
            pos = k + 1
            continue
        end = cl + 1
        tail = "vst"
        am = re.match(r"\s*\.and_then\(\s*\|\s*\(\)\s*\|", m[end:])
        if am:
            aop = end + m[end:].index("(")
            acl = match_brace(m, aop)
            tail = "match vst { Ok(()) => %s, Err(e) => Err(e) }" % text[end + am.end():acl].strip()
            lead = text[end:end + am.start()]
            end = acl + 1
        if not m[end:].lstrip().startswith(";"):
            pos = k + 1
            continue
        recv = text[s + lm.end():k]
        body = text[op + 1 + cm.end():cl].rstrip()
        x = cm.group("x")
        new = "%s{ let vrecv = %s; let vf = |%s: %s| -> (q: %s) %s { %s }; let mut vst: %s = Ok(()); for %s in itf: vrecv { vst = vf(%s); if vst.is_err() { break; } } %s }" % (
            text[s:s + lm.end()], recv, x, argty, retty, ens, body, retty, x, x, tail)
        old = text[s:end]
        need = old.count("\n") - new.count("\n")
        if need < 0:
            pos = k + 1
            continue
        text = text[:s] + new + "\n" * need + text[end:]
        pos = s + len(new)
        cnt += 1
    return text, cnt


def _rewrite_logs(text: str):
    """R-log: statements `trace!/debug!/info!/warn!/error!(..);` are removed (line count preserved)."""
    cnt = 0
    while True:
        m = mask(text)
        mm = re.search(r"(?<![A-Za-z0-9_:])(%s)!\s*\(" % "|".join(LOG_MACROS), m)
        if not mm:
            break
        end = match_brace(m, mm.end() - 1) + 1
        sm = re.match(r"\s*;", m[end:])
        if sm:
            end += sm.end()
        old = text[mm.start():end]
        # expression position (`pat => warn!(..),` / `.unwrap_or_else(|_| warn!(..))`): the unit value stays
        before = m[:mm.start()].rstrip()
        filler = "()" if (not sm and (before.endswith("=>") or before.endswith("|"))) else ""
        text = text[:mm.start()] + filler + "\n" * old.count("\n") + text[end:]
        cnt += 1
    return text, cnt


@dataclass
class Unit:
    name: str                     # unit id (unique per property)
    file: str                     # path relative to the repo root
    anchor: str                   # header text, must be unique (inside `within`)
    within: Optional[str] = None  # header of the enclosing impl/mod, optional
    kind: str = "fn"              # fn | type | block | const
    ret_name: Optional[str] = None  # name for the return value: `-> T` => `-> (name: T)`
    contract: str = ""            # requires/ensures/decreases text
    loops: Dict[int, str] = field(default_factory=dict)   # loop ordinal (1-based) -> invariant text
    hints: List[Tuple[str, str, str]] = field(default_factory=list)  # (before|after, stmt text, proof text)
    rewrites: List[Rw] = field(default_factory=list)
    attrs: str = ""               # verifier attributes to put in front of the item
    wrap_open: str = ""           # e.g. "impl<R: VReader> ChunkIter<R> {"
    wrap_close: str = ""
    # block units only:
    block_end: Optional[str] = None   # text of the first statement *after* the block
    block_sig: str = ""               # wrapper fn header for the block (free vars as params)
    block_tail: str = ""              # closing expression, e.g. "(max_unused, max_repack)"
    fn_name: Optional[str] = None     # name of the emitted function (default: derived from anchor)
    # split units only (kind="split"): the body is cut at the given statement anchors into consecutive
    # segments that together are exactly the body; each segment becomes its own function with its own
    # contract and a generated driver calls them in order (modular proof of a long function)
    splits: List[str] = field(default_factory=list)        # text at which segment k+1 starts
    seg_contracts: List[str] = field(default_factory=list)  # one per segment
    seg_call: str = ""            # e.g. "self.{name}(config)"
    seg_ok: str = "Ok(())"        # value a non-final segment returns when it falls through
    seg_attrs: str = ""
    canary: str = ""              # proof fn text `requires <pre> ensures false` (must FAIL)
    functions: List[str] = field(default_factory=list)  # repo functions this unit puts under contract (for evidence)
    optional_loops: bool = False  # an invariant for a loop ordinal the body no longer has is dropped instead of UNDECIDED


@dataclass
class Piece:
    text: str
    kind: str            # "src" | "spec" | "glue"
    file: str = ""
    line: int = 0        # source line of the first char (src pieces)
    label: str = ""      # for spec pieces: unit + where


_DISCARD_PAT = r"(?m)^(\s*)_ = "


def _apply_rewrites(text: str, rws: List[Rw], unit: str, log: list) -> str:
    # logging never carries semantics for a property: log macros are removed from every body even if a unit does not
    # list R-log (a log line added by an edit must not make the unit leave the verifiable subset)
    if rws is not None and not any(r.sig for r in rws) and not any(r.kind == "log" for r in rws):
        rws = list(rws) + [Rw("", "", count=None, kind="log", why="logging removed (default)")]
    if rws is not None and not any(r.sig for r in rws) and not any(r.pat == _DISCARD_PAT for r in rws):
        # `_ = e;` (destructuring assignment, unsupported by Verus) -> `let _ = e;` (same meaning)
        rws = list(rws) + [Rw(_DISCARD_PAT, r"\1let _ = ", regex=True, count=None, why="`_ = e;` -> `let _ = e;` (default)")]
    for rw in rws:
        if rw.kind in ("err", "log", "attrs", "maperr", "letchain", "dropargs", "fold", "tryforeach"):
            if rw.kind == "fold":
                text, cnt = _rewrite_folds(text)
            elif rw.kind == "tryforeach":
                text, cnt = _rewrite_try_for_each(text, rw.rep)
            elif rw.kind == "dropargs":
                text, cnt = _rewrite_dropargs(text, rw.pat, rw.rep)
            elif rw.kind == "letchain":
                text, cnt = _rewrite_letchains(text)
            elif rw.kind == "maperr":
                text, cnt = _rewrite_maperr(text)
            elif rw.kind == "err":
                text, cnt = _rewrite_errs(text, rw.rep or "verr()")
            elif rw.kind == "attrs":
                text, cnt = _strip_attrs(text)
            else:
                text, cnt = _rewrite_logs(text)
            if rw.strict and ((cnt == 0 and not rw.optional) or (rw.count is not None and cnt != rw.count)):
                raise LostAnchor("%s: rewrite R-%s matched %d times, expected %s" % (unit, rw.kind, cnt, rw.count if rw.count is not None else ">=1"))
            log.append({"unit": unit, "pattern": "R-" + rw.kind, "replacement": rw.rep or ("verr()" if rw.kind == "err" else "(removed)"), "matches": cnt, "why": rw.why})
            continue

        def pad(m_text, rep):
            need = m_text.count("\n") - rep.count("\n")
            if need < 0:
                raise LostAnchor("%s: rewrite %r adds lines (not allowed)" % (unit, rw.pat))
            return rep + "\n" * need
        if rw.regex:
            rx = re.compile(rw.pat, re.S)
            ms = list(rx.finditer(text))
            cnt = len(ms)
            if rw.strict and ((cnt == 0 and not rw.optional) or (rw.count is not None and cnt != rw.count)):
                raise LostAnchor("%s: rewrite /%s/ matched %d times, expected %s" % (unit, rw.pat, cnt, rw.count if rw.count is not None else ">=1"))
            text = rx.sub(lambda m: pad(m.group(0), m.expand(rw.rep)), text)
        else:
            cnt = text.count(rw.pat)
            if rw.strict and ((cnt == 0 and not rw.optional) or (rw.count is not None and cnt != rw.count)):
                raise LostAnchor("%s: rewrite %r matched %d times, expected %s" % (unit, rw.pat, cnt, rw.count if rw.count is not None else ">=1"))
            text = text.replace(rw.pat, pad(rw.pat, rw.rep))
        log.append({"unit": unit, "pattern": rw.pat, "replacement": rw.rep, "matches": cnt, "why": rw.why})
    return text


def _name_return(sig: str, ret_name: str, unit: str) -> str:
    m = mask(sig)
    # last "->" at paren depth 0
    depth = 0
    pos = -1
    for k, ch in enumerate(m):
        if ch in "([":
            depth += 1
        elif ch in ")]":
            depth -= 1
        elif ch == "-" and depth == 0 and m[k:k + 2] == "->":
            pos = k
    if pos < 0:
        raise LostAnchor("%s: no return type to name" % unit)
    head, ty = sig[:pos], sig[pos + 2:]
    # split off a where clause
    wm = re.search(r"(?<![A-Za-z0-9_])where(?![A-Za-z0-9_])", mask(ty))
    where = ""
    if wm:
        ty, where = ty[:wm.start()], ty[wm.start():]
    trail = ty[len(ty.rstrip()):]
    return "%s-> (%s: %s)%s%s" % (head, ret_name, ty.strip(), trail if trail else " ", where)


def extract_unit(u: Unit, rewrite_log: list) -> List[Piece]:
    path = os.path.join(REPO, u.file)
    try:
        src = open(path, encoding="utf-8").read()
    except OSError as e:
        raise LostAnchor("%s: cannot read %s: %s" % (u.name, u.file, e))
    pieces: List[Piece] = []
    lab = u.name

    if u.kind in ("type", "const"):
        m = mask(src)
        a = find_unique(m, u.anchor, u.name)
        if u.kind == "const":
            e = m.find(";", a)
            end = e + 1
        else:
            bo = body_open(m, a)
            end = match_brace(m, bo) + 1
        text = _apply_rewrites(src[a:end], u.rewrites, u.name, rewrite_log)
        # restricted visibility on the item header becomes `pub` (single-module output)
        text = re.sub(r"^pub(\([^)]*\))?\s+", "", text)
        if u.wrap_open:
            pieces.append(Piece(u.wrap_open + "\n", "glue"))
        if u.attrs:
            pieces.append(Piece(u.attrs + "\n", "spec", label=lab + ":attrs"))
        pieces.append(Piece(text + "\n", "src", u.file, line_of(src, a)))
        if u.wrap_close:
            pieces.append(Piece(u.wrap_close + "\n", "glue"))
        return pieces

    if u.kind == "block":
        # statements from `anchor` (inclusive) up to `block_end` (exclusive), inside `within`
        m = mask(src)
        lo, hi = 0, len(src)
        if u.within:
            w = find_unique(m, u.within, u.name + " (within)")
            wo = body_open(m, w)
            lo, hi = wo, match_brace(m, wo)
        closure_span = None
        if u.anchor.startswith("@closure:"):
            # the block is the BODY OF A CLOSURE given as (last) argument of a call: the anchor text ends with the
            # closure's parameter list (e.g. ".any(|p|"); the body runs to the parenthesis closing that call, whatever
            # the formatting (one line, several lines, braced or not)
            pat = u.anchor[len("@closure:"):]
            nth = re.match(r"#(\d+):", pat)   # "@closure:#2:<text>" = the 2nd occurrence of <text> (same closure header used twice)
            if nth:
                pat = pat[nth.end():]
                k, pos = -1, lo
                for _ in range(int(nth.group(1))):
                    k = m.find(pat, pos, hi)
                    if k < 0:
                        raise LostAnchor("%s: anchor not found (occurrence %s): %r" % (u.name, nth.group(1), pat))
                    pos = k + 1
            elif pat.startswith("~"):
                # "@closure:~<regex>": the closure header given as a regular expression (whitespace-insensitive anchors)
                ms = list(re.finditer(pat[1:], m[lo:hi]))
                if len(ms) != 1:
                    raise LostAnchor("%s: closure anchor regex matches %d times: %r" % (u.name, len(ms), pat[1:]))
                k = lo + ms[0].start()
                pat = ms[0].group(0)
            else:
                k = find_unique(m, pat, u.name, lo, hi)
            # the call whose argument the closure is: the innermost parenthesis still open at the closure's first `|`
            stack = []
            for ci, ch in enumerate(pat[:pat.index("|")]):
                if ch == "(":
                    stack.append(ci)
                elif ch == ")" and stack:
                    stack.pop()
            if not stack:
                raise LostAnchor("%s: @closure anchor has no open call parenthesis before `|`: %r" % (u.name, pat))
            cp = match_brace(m, k + stack[-1])
            ca, ce = k + len(pat), cp
            while ce > ca and src[ce - 1] in " \t\n,":
                ce -= 1
            while ca < ce and src[ca] in " \t\n":
                ca += 1
            if src[ca] == "{" and match_brace(m, ca) == ce - 1:
                ca, ce = ca + 1, ce - 1
            closure_span = (ca, ce)
        if closure_span:
            a = closure_span[0]
        elif u.anchor == "@body":
            # the block starts at the first statement of the enclosing function: nothing can precede it
            a = lo + 1
            if src[a] == "\n":
                a += 1
        else:
            a = find_unique(m, u.anchor, u.name, lo, hi)
            a = src.rfind("\n", 0, a) + 1
        if closure_span:
            e = closure_span[1]
        elif u.block_end == "@fn_end":
            # the block runs to the end of the enclosing function body
            e = hi
        elif u.block_end == "@for_end":
            # the block runs from the anchor statement through the end of the FIRST `for` loop that follows it
            fm = re.compile(r"(?<![A-Za-z0-9_])for\s").search(m, a)
            ob = m.find("{", fm.end())
            e = match_brace(m, ob) + 1
            nl = src.find("\n", e)
            e = len(src) if nl < 0 else nl + 1
        elif u.block_end == "@matching_brace":
            # the block is ONE braced statement (e.g. a `match`): it ends with the brace matching the first `{`
            ob = m.find("{", a)
            e = match_brace(m, ob) + 1
            nl = src.find("\n", e)
            e = len(src) if nl < 0 else nl + 1
        else:
            e = find_unique(src if '"' in u.block_end else m, u.block_end, u.name + " (block_end)", a, hi)
            e = src.rfind("\n", 0, e) + 1
        body = _apply_rewrites(src[a:e], [r for r in u.rewrites if not r.sig], u.name, rewrite_log)
        if u.wrap_open:
            pieces.append(Piece(u.wrap_open + "\n", "glue"))
        if u.attrs:
            pieces.append(Piece(u.attrs + "\n", "spec", label=lab + ":attrs"))
        pieces.append(Piece(u.block_sig.rstrip() + "\n", "spec", label=lab + ":block_sig"))
        if u.contract.strip():
            pieces.append(Piece(u.contract.rstrip() + "\n", "spec", label=lab + ":contract"))
        pieces.append(Piece("{\n", "glue"))
        pieces += _splice_body(u, body, u.file, line_of(src, a))
        pieces.append(Piece("\n" + u.block_tail + "\n}\n", "spec", label=lab + ":block_tail"))
        if u.wrap_close:
            pieces.append(Piece(u.wrap_close + "\n", "glue"))
        return pieces

    if u.kind == "split":
        return _extract_split(u, src, rewrite_log)

    a, bo, bc = locate_item(src, u.anchor, u.within, u.name)
    sig = src[a:bo]
    sig = _apply_rewrites(sig, [r for r in u.rewrites if r.sig], u.name, rewrite_log)
    # visibility modifiers are dropped (single-module output; declared in DESIGN.md 2.1)
    sig = re.sub(r"^pub(\([^)]*\))?\s+", "", sig)
    if u.ret_name:
        sig = _name_return(sig, u.ret_name, u.name)
    body = src[bo:bc + 1]
    body = _apply_rewrites(body, [r for r in u.rewrites if not r.sig], u.name, rewrite_log)

    if u.wrap_open:
        pieces.append(Piece(u.wrap_open + "\n", "glue"))
    if u.attrs:
        pieces.append(Piece(u.attrs + "\n", "spec", label=lab + ":attrs"))
    pieces.append(Piece(sig.rstrip() + "\n", "src", u.file, line_of(src, a)))
    if u.contract.strip():
        pieces.append(Piece(u.contract.rstrip() + "\n", "spec", label=lab + ":contract"))
    pieces += _splice_body(u, body, u.file, line_of(src, bo))
    pieces.append(Piece("\n", "glue"))
    if u.wrap_close:
        pieces.append(Piece(u.wrap_close + "\n", "glue"))
    return pieces


def _extract_split(u: Unit, src: str, rewrite_log: list) -> List[Piece]:
    """Cut the body of a function at statement anchors.  Segment texts are consecutive slices of the
    body, so their concatenation IS the body (nothing dropped, nothing duplicated); segment k is
    emitted as `fn <name>_seg<k>` with the function's own parameter list, a non-final segment ends
    with `seg_ok`; the driver `fn <name>` is `seg0?; seg1?; ...; segN`."""
    a, bo, bc = locate_item(src, u.anchor, u.within, u.name)
    sig = src[a:bo]
    sig = _apply_rewrites(sig, [r for r in u.rewrites if r.sig], u.name, rewrite_log)
    sig = re.sub(r"^pub(\([^)]*\))?\s+", "", sig)
    if u.ret_name:
        sig = _name_return(sig, u.ret_name, u.name)
    inner_lo, inner_hi = bo + 1, bc            # body without its outer braces
    m = mask(src)
    cuts = [inner_lo]
    for sp in u.splits:
        k = find_unique(m, sp, "%s (split anchor)" % u.name, inner_lo, inner_hi)
        k = src.rfind("\n", 0, k) + 1            # start of that line
        if k <= cuts[-1]:
            raise LostAnchor("%s: split anchors out of order: %r" % (u.name, sp))
        # a cut must be at brace depth 0 of the body
        depth = m.count("{", inner_lo, k) - m.count("}", inner_lo, k)
        if depth != 0:
            raise LostAnchor("%s: split anchor %r is nested inside a block" % (u.name, sp))
        cuts.append(k)
    cuts.append(inner_hi)
    nseg = len(cuts) - 1
    if len(u.seg_contracts) != nseg:
        raise LostAnchor("%s: %d segments but %d segment contracts" % (u.name, nseg, len(u.seg_contracts)))
    fn_name = re.search(r"fn\s+(\w+)", sig).group(1)
    pieces: List[Piece] = []
    if u.wrap_open:
        pieces.append(Piece(u.wrap_open + "\n", "glue"))
    body_rws = [r for r in u.rewrites if not r.sig]
    for k in range(nseg):
        seg_src = src[cuts[k]:cuts[k + 1]]
        # rewrites are applied per segment; a rewrite may match in some segments only
        seg_log = []
        seg_rws = [Rw(pat=r.pat, rep=r.rep, count=None, regex=r.regex, why=r.why, sig=r.sig, optional=True, kind=r.kind) for r in body_rws]
        seg_txt = _apply_rewrites(seg_src, seg_rws, "%s_seg%d" % (u.name, k), seg_log)
        rewrite_log += [l for l in seg_log if l["matches"]]
        seg_sig = re.sub(r"fn\s+%s\b" % fn_name, "fn %s_seg%d" % (fn_name, k), sig, count=1)
        if u.seg_attrs:
            pieces.append(Piece(u.seg_attrs + "\n", "spec", label="%s:seg%d:attrs" % (u.name, k)))
        pieces.append(Piece(seg_sig.rstrip() + "\n", "src", u.file, line_of(src, a)))
        pieces.append(Piece(u.seg_contracts[k].rstrip() + "\n", "spec", label="%s:seg%d:contract" % (u.name, k)))
        pieces.append(Piece("{\n", "glue"))
        pieces.append(Piece(seg_txt, "src", u.file, line_of(src, cuts[k])))
        if k < nseg - 1:
            pieces.append(Piece("\n        " + u.seg_ok + "\n", "spec", label="%s:seg%d:fallthrough" % (u.name, k)))
        pieces.append(Piece("\n}\n", "glue"))
    # every declared rewrite must have matched somewhere in the body
    whole = src[inner_lo:inner_hi]
    _apply_rewrites(whole, body_rws, u.name, [])
    # driver
    pieces.append(Piece(sig.rstrip() + "\n", "src", u.file, line_of(src, a)))
    if u.contract.strip():
        pieces.append(Piece(u.contract.rstrip() + "\n", "spec", label=u.name + ":contract"))
    drv = "{\n"
    for k in range(nseg):
        call = u.seg_call.format(name="%s_seg%d" % (fn_name, k))
        drv += "        %s%s\n" % (call, "?;" if k < nseg - 1 else "")
    drv += "}\n"
    pieces.append(Piece(drv, "spec", label=u.name + ":driver"))
    if u.wrap_close:
        pieces.append(Piece(u.wrap_close + "\n", "glue"))
    return pieces


def _splice_body(u: Unit, body: str, file: str, first_line: int) -> List[Piece]:
    """Insert loop invariants and proof hints into the (already rewritten,
    line-count preserving) body text."""
    m = mask(body)
    inserts = []  # (offset, text, label)
    heads = loop_headers(m)
    loop_aids_moot = False
    if not heads and (u.loops or any(h[0] in ("after_loop", "loop_start") for h in u.hints)):
        # the body has NO loop any more (e.g. a fold / loop replaced by a closed form): invariants and loop hints are
        # proof aids for loops that do not exist -- dropped; straight-line code is decided without them
        loop_aids_moot = True
    for ordinal, inv in sorted(u.loops.items()):
        if loop_aids_moot:
            continue
        if ordinal < 1 or ordinal > len(heads):
            if getattr(u, "optional_loops", False):
                continue
            raise LostAnchor("%s: loop #%d not found (body has %d loops)" % (u.name, ordinal, len(heads)))
        _, brace = heads[ordinal - 1]
        inserts.append((brace, "\n" + inv.rstrip() + "\n", "%s:loop%d" % (u.name, ordinal)))
    if len(u.loops) and False:
        pass
    for where, stmt, text in u.hints:
        if where in ("after_loop", "loop_start") and loop_aids_moot:
            continue
        if where == "after_loop":
            ordinal = int(stmt)
            if ordinal < 1 or ordinal > len(heads):
                if getattr(u, "optional_loops", False):
                    continue
                raise LostAnchor("%s: loop #%d not found for after_loop hint" % (u.name, ordinal))
            close = match_brace(m, heads[ordinal - 1][1])
            inserts.append((close + 1, "\n" + text.rstrip() + "\n", "%s:hint-after-loop%d" % (u.name, ordinal)))
            continue
        if where == "loop_start":
            # first position inside the body of loop N: independent of the text of any statement
            ordinal = int(stmt)
            if ordinal < 1 or ordinal > len(heads):
                if getattr(u, "optional_loops", False):
                    continue
                raise LostAnchor("%s: loop #%d not found for loop_start hint" % (u.name, ordinal))
            inserts.append((heads[ordinal - 1][1] + 1, "\n" + text.rstrip() + "\n", "%s:hint-loop-start%d" % (u.name, ordinal)))
            continue
        k = find_unique(body, stmt, "%s (hint anchor)" % u.name)
        if where == "before":
            off = body.rfind("\n", 0, k) + 1
            inserts.append((off, text.rstrip() + "\n", "%s:hint-before:%s" % (u.name, stmt[:40])))
        elif where == "after":
            off = body.find("\n", k + len(stmt))
            off = len(body) if off < 0 else off + 1
            inserts.append((off, text.rstrip() + "\n", "%s:hint-after:%s" % (u.name, stmt[:40])))
        else:
            raise ValueError(where)
    inserts.sort(key=lambda t: t[0])
    pieces = []
    cur = 0
    for off, text, label in inserts:
        if off > cur:
            pieces.append(Piece(body[cur:off], "src", file, first_line + body.count("\n", 0, cur)))
        pieces.append(Piece(text, "spec", label=label))
        cur = off
    pieces.append(Piece(body[cur:], "src", file, first_line + body.count("\n", 0, cur)))
    return pieces


_PRIV_RE = re.compile(r"(?m)^([ \t]*)pub(\([^)]*\))?[ \t]+((open |closed |uninterp |broadcast )*(spec fn|proof fn|fn|struct|enum|trait|type|const|mod)\b)")


def _privatize(txt: str) -> str:
    """Everything lives in one module of one file: item-level visibility is dropped so that spec
    functions may freely mention the private fields of extracted types (`open`/`closed` are
    meaningless for private spec fns and dropped too)."""
    def rep(m):
        # a line carrying the marker `keep-vis` keeps its visibility (needed for items used in
        # impls of public std traits such as core::ops::Index)
        eol = txt.find("\n", m.start())
        if "keep-vis" in txt[m.start():eol if eol >= 0 else len(txt)]:
            return m.group(0)
        item = re.sub(r"\b(open|closed) ", "", m.group(3))
        return m.group(1) + item
    return _PRIV_RE.sub(rep, txt)



_FOR_HDR = re.compile(r"(?<![A-Za-z0-9_])for\s+(?P<pat>[A-Za-z_][A-Za-z0-9_]*)\s+in\s+(?P<name>[A-Za-z_][A-Za-z0-9_]*)\s*:\s*(?P<expr>[^{;\n]+?)\.iter\(\)[ \t]*(?=\n|\{)")
_NESTED_LOOP = re.compile(r"(?<![A-Za-z0-9_'])(for|while|loop)(?![A-Za-z0-9_])")


def _own_continue(mbody: str) -> bool:
    """does the (masked) loop body contain a `continue` that belongs to THIS loop (not to a nested one)?"""
    excl = []
    for nm in _NESTED_LOOP.finditer(mbody):
        ob = mbody.find("{", nm.end())
        if ob < 0:
            continue
        try:
            excl.append((ob, match_brace(mbody, ob)))
        except Exception:
            pass
    for cm in re.finditer(r"(?<![A-Za-z0-9_])continue(?![A-Za-z0-9_])", mbody):
        if not any(a < cm.start() < b for a, b in excl):
            return True
    return False


def for_continue_fallback(text: str, log: list) -> str:
    """R-forcontinue.  Verus has no `continue` inside `for` loops.  A loop `for X in IT: E.iter() inv { B }` whose body
    contains its own `continue` is rewritten (same lines) to the index loop
        let mut IT_i: usize = 0; while IT_i < E.len() invariant IT_i <= E.len(), inv' decreases E.len() - IT_i
        { let X = &E[IT_i]; IT_i = IT_i + 1; B' }
    where the ghost position `IT.index@` becomes `IT_i` in the loop's invariant and after the loop, `IT_i - 1` in the body.
    E is evaluated again per iteration (it is a place expression or a pure call in every unit)."""
    pos = 0
    while True:
        m = mask(text)
        hm = _FOR_HDR.search(m, pos)
        if not hm:
            return text
        pos = hm.end()
        name, pat, expr = hm.group("name"), hm.group("pat"), text[hm.start("expr"):hm.end("expr")].strip()
        # body-open brace: the first `{` after the header that is not inside the invariant clauses' own braces/parens
        k = hm.end()
        depth = 0
        ob = -1
        while k < len(m):
            c = m[k]
            if c in "([":
                depth += 1
            elif c in ")]":
                depth -= 1
            elif c == "{" and depth == 0:
                # a `{` that starts an invariant sub-expression (`==> {`, `&&& {` ...) is preceded by an operator or `(`
                prev = m[:k].rstrip()
                if prev.endswith(("==>", "&&&", "|||", "=", "(", "&&", "||", "{")):
                    k = match_brace(m, k)
                else:
                    ob = k
                    break
            k += 1
        if ob < 0:
            continue
        cb = match_brace(m, ob)
        if not _own_continue(m[ob + 1:cb]):
            continue
        iv = name + "_i"
        idx_pat = re.compile(r"(?<![A-Za-z0-9_])" + re.escape(name) + r"\.index@")
        header = text[hm.start():hm.end()]
        inv = text[hm.end():ob]
        body = text[ob + 1:cb]
        rest = text[cb:]
        if "(" in expr:
            # a call: binding it to a local would lose what its contract says about the value across iterations
            # (spurious failures); left to Verus, which reports the unsupported `continue` (UNDECIDED)
            continue
        new_header = "let mut %s: usize = 0; while %s < %s.len()" % (iv, iv, expr)
        inv2 = idx_pat.sub("(%s as int)" % iv, inv)
        bound = " %s <= %s.len()," % (iv, expr)
        if re.search(r"(?<![A-Za-z0-9_])invariant(?![A-Za-z0-9_])", mask(inv2)):
            inv2 = re.sub(r"(?<![A-Za-z0-9_])invariant(?![A-Za-z0-9_])", "invariant" + bound, inv2, count=1)
        else:
            new_header += " invariant" + bound
        body2 = idx_pat.sub("((%s - 1) as int)" % iv, body)
        # after the loop, up to a re-declaration of the same ghost iterator name
        nxt = re.search(r"in\s+" + re.escape(name) + r"\s*:", mask(rest))
        lim = nxt.start() if nxt else len(rest)
        rest2 = idx_pat.sub("(%s as int)" % iv, rest[:lim]) + rest[lim:]
        text = (text[:hm.start()] + new_header + inv2 + " decreases (%s.len() - %s) { let %s = &%s[%s]; %s = %s + 1;" % (expr, iv, pat, expr, iv, iv, iv)
                + body2 + rest2)
        log.append({"unit": "(any)", "pattern": "R-forcontinue", "replacement": "index while-loop for `for %s in %s: %s.iter()`" % (pat, name, expr),
                    "matches": 1, "why": "Verus rejects `continue` in for loops; ghost position %s.index@ -> %s" % (name, iv)})
        pos = hm.start() + len(new_header)


def assemble(prelude_files: List[str], units: List[Unit], out_path: str, extra_tail: str = ""):
    """Write the Verus file; return (linemap, rewrite_log, n_loops_with_inv).
    linemap[i] (1-based output line i) = dict(kind=..., file=..., line=..., label=...)."""
    rewrite_log = []
    pieces: List[Piece] = []
    pieces.append(Piece("#![feature(allocator_api)]\n#![allow(unused_imports, unused_variables, unused_mut, dead_code, unused_assignments, non_snake_case, unreachable_code, unused_parens)]\nuse vstd::prelude::*;\nverus! {\n", "glue"))
    for pf in prelude_files:
        txt = _privatize(open(pf, encoding="utf-8").read())
        pieces.append(Piece("// ---- prelude: %s ----\n" % os.path.basename(pf), "glue"))
        pieces.append(Piece(txt if txt.endswith("\n") else txt + "\n", "prelude", file=pf, line=1))
    for u in units:
        pieces.append(Piece("// ---- unit %s  (%s :: %s) ----\n" % (u.name, u.file, u.anchor.replace("\n", " ")), "glue"))
        pieces += extract_unit(u, rewrite_log)
        if u.canary.strip():
            pieces.append(Piece(u.canary.rstrip() + "\n", "spec", label=u.name + ":canary"))
    if extra_tail:
        pieces.append(Piece(extra_tail, "spec", label="tail"))
    pieces.append(Piece("} // verus!\nfn main() {}\n", "glue"))

    out = []
    linemap = [None]
    for p in pieces:
        if not p.text:
            continue
        # a piece that does not start at column 0 of an output line continues the
        # current line; force line separation so that a line has one origin
        if out and not out[-1].endswith("\n"):
            out.append("\n")
        lines = p.text.split("\n")
        if lines and lines[-1] == "":
            lines.pop()
        for k, ln in enumerate(lines):
            out.append(ln + "\n")
            if p.kind == "src":
                linemap.append({"kind": "src", "file": p.file, "line": p.line + k, "text": ln.strip()})
            elif p.kind == "prelude":
                linemap.append({"kind": "prelude", "file": p.file, "line": p.line + k, "text": ln.strip()})
            elif p.kind == "spec":
                linemap.append({"kind": "spec", "label": p.label, "text": ln.strip()})
            else:
                linemap.append({"kind": "glue", "text": ln.strip()})
    final = "".join(out)
    try:
        final2 = for_continue_fallback(final, rewrite_log)
        if final2.count("\n") == final.count("\n"):
            final = final2
    except Exception as e:  # the fallback is best effort: without it Verus reports the unsupported construct (UNDECIDED)
        rewrite_log.append({"unit": "(any)", "pattern": "R-forcontinue", "replacement": "(failed: %s)" % e, "matches": 0, "why": ""})
    os.makedirs(os.path.dirname(out_path), exist_ok=True)
    with open(out_path, "w", encoding="utf-8") as f:
        f.write(final)
    return linemap, rewrite_log
