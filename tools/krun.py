"""Engine K: run Kani harnesses that are compiled into the real crate (cfg(kani) hook modules)
and turn the results into obligations."""
import json
import os
import re
import subprocess
import time
from dataclasses import dataclass, field
from typing import List, Optional

from . import extract

ROOT = os.path.dirname(os.path.dirname(os.path.abspath(__file__)))
KANI_TARGET = os.environ.get("VERIF_KANI_TARGET", os.path.join(ROOT, ".cache", "kani"))


def kani_target_for(repo):
    """/repo uses the shared cache.  Any OTHER tree (mutation / seeded-change runs) gets a target dir of its
    own: cargo's fingerprints are keyed workspace-relative, so a second tree sharing the target dir can be
    judged 'fresh' and silently verified with /repo's artifacts (observed).  The private dir is seeded with
    the dependency artifacts of the shared cache; everything of rustic_core is removed so it is rebuilt."""
    import hashlib
    import shutil
    real = os.path.realpath(repo)
    if real == "/repo":
        return KANI_TARGET
    alt = "/scratch/kani-target-" + hashlib.sha1(real.encode()).hexdigest()[:8]
    if not os.path.isdir(alt):
        os.makedirs("/scratch", exist_ok=True)
        if os.path.isdir(KANI_TARGET):
            subprocess.run(["cp", "-a", KANI_TARGET, alt])
            subprocess.run("find %s -depth \\( -name 'rustic_core*' -o -name 'librustic_core*' \\) -exec rm -rf {} +" % alt, shell=True)
        else:
            os.makedirs(alt)
    return alt


@dataclass
class Harness:
    name: str                      # full harness path, e.g. backend::hotcold::verif_kani::c16_write_bytes
    functions: List[str] = field(default_factory=list)   # repo functions under this contract
    kind: str = "complete"         # complete | bounded
    bound: str = ""                # for bounded: the stated bound
    tier: str = "quick"            # quick | thorough
    unwind: Optional[int] = None   # --default-unwind for this harness (else spec default)
    timeout: int = 900
    expect_stubs: int = 0          # minimal number of "- Stub:" lines kani must print
    covers: int = 0                # number of kani::cover! that must be SATISFIED (0 = all present ones)
    extra: List[str] = field(default_factory=list)
    note: str = ""


class KaniOutcome:
    def __init__(self):
        self.failed = []
        self.undecided = []
        self.n_ok = 0
        self.n_total = 0
        self.checks_ok = 0
        self.checks_total = 0
        self.cmd = ""
        self.assumptions = []
        self.functions = []
        self.coverage = {}
        self.samples = []
        self.bounded = []
        self.bounded_checks_total = 0
        self.bounded_checks_ok = 0


MEM_CAP_BYTES = int(os.environ.get("VERIF_KANI_MEM_GB", "24")) * 1024 ** 3


def _limit_mem():
    # a CBMC process that needs more than this is a blow-up, not a proof: it ends as UNDECIDED instead of
    # starving the machine (address-space limit is inherited by kani-driver and cbmc)
    import resource
    resource.setrlimit(resource.RLIMIT_AS, (MEM_CAP_BYTES, MEM_CAP_BYTES))


def _run(cmd, cwd, timeout, env):
    t0 = time.time()
    try:
        p = subprocess.run(cmd, cwd=cwd, capture_output=True, text=True, timeout=timeout, env=env, preexec_fn=_limit_mem)
        out = p.stdout + "\n" + p.stderr
        rc = p.returncode
    except subprocess.TimeoutExpired as e:
        out = (e.stdout.decode() if isinstance(e.stdout, bytes) else (e.stdout or "")) + "\n" + \
              (e.stderr.decode() if isinstance(e.stderr, bytes) else (e.stderr or ""))
        rc = -9
        subprocess.run("pkill -9 cbmc; pkill -9 -f kani-driver; pkill -9 -f cargo-kani", shell=True)
    return rc, out, time.time() - t0


def parse_harness_blocks(out):
    """Split kani output into per-harness blocks -> dict name -> text.  Handles both the regular
    format and the `-j N --output-format terse` format where lines are prefixed `Thread k:`."""
    blocks = {}
    cur_by_thread = {}
    cur = None
    for ln in out.splitlines():
        tm = re.match(r"Thread (\d+): ?(.*)$", ln)
        thread = None
        if tm:
            thread, ln = tm.group(1), tm.group(2)
        m = re.match(r"\s*Checking harness (\S+?)\.\.\.", ln)
        if m:
            cur = m.group(1)
            blocks.setdefault(cur, [])
            if thread is not None:
                cur_by_thread[thread] = cur
            continue
        if thread is not None and thread in cur_by_thread:
            cur = cur_by_thread[thread]
        if re.match(r"(Manual Harness Summary|Complete - )", ln):
            cur = None
        if cur is not None:
            blocks[cur].append(ln)
    return {k: "\n".join(v) for k, v in blocks.items()}


def analyse_block(text):
    res = {"status": None, "failed_checks": [], "checks_total": 0, "checks_failed": 0,
           "covers_total": 0, "covers_sat": 0, "time_s": None, "unwind_fail": False, "playback": None,
           "concrete": None}
    m = re.search(r"VERIFICATION:- (SUCCESSFUL|FAILED)", text)
    if m:
        res["status"] = m.group(1)
    m = re.search(r"\*\* (\d+) of (\d+) failed", text)
    if m:
        res["checks_failed"], res["checks_total"] = int(m.group(1)), int(m.group(2))
    m = re.search(r"\*\* (\d+) of (\d+) cover properties satisfied", text)
    if m:
        res["covers_sat"], res["covers_total"] = int(m.group(1)), int(m.group(2))
    m = re.search(r"Verification Time: ([0-9.]+)s", text)
    if m:
        res["time_s"] = float(m.group(1))
    # failed checks
    for fm in re.finditer(r"Failed Checks: (.*)\n\s*File: \"([^\"]*)\", line (\d+), in (\S+)", text):
        res["failed_checks"].append({"description": fm.group(1).strip(), "file": fm.group(2), "line": int(fm.group(3)), "function": fm.group(4)})
    if not res["failed_checks"]:
        for fm in re.finditer(r"Failed Checks: (.*)", text):
            res["failed_checks"].append({"description": fm.group(1).strip(), "file": "", "line": 0, "function": ""})
    if re.search(r"unwinding assertion", text) and any("unwinding assertion" in c["description"] for c in res["failed_checks"]):
        res["unwind_fail"] = True
    pm = re.search(r"Concrete playback unit test for `[^`]*`:\n```\n(.*?)```", text, re.S)
    if pm:
        res["playback"] = pm.group(1)
        vals = re.findall(r"//\s*(.+)\n\s*vec!\[([^\]]*)\]", pm.group(1))
        res["concrete"] = [{"value": a.strip(), "bytes": b.strip()} for a, b in vals]
    return res


def run_kani_engine(prop, spec, tier, known=()):
    ko = KaniOutcome()
    harnesses = [h for h in spec.KANI if tier == "thorough" or h.tier == "quick"]
    ko.n_total = len(harnesses)
    if not harnesses:
        return ko
    env = dict(os.environ)
    env["CARGO_NET_OFFLINE"] = "true"
    target = kani_target_for(extract.REPO)
    env["CARGO_TARGET_DIR"] = target
    default_unwind = getattr(spec, "KANI_UNWIND", 2)
    pkg = getattr(spec, "KANI_PACKAGE", "rustic_core")
    base = ["cargo", "kani", "-p", pkg, "-Z", "function-contracts", "-Z", "stubbing", "-Z", "unstable-options"]
    # group harnesses by identical options so that one cargo-kani invocation (one compilation) serves many
    groups = {}
    for h in harnesses:
        key = (h.unwind if h.unwind is not None else default_unwind, tuple(h.extra), h.timeout)
        groups.setdefault(key, []).append(h)
    per_h = {}
    cmds = []
    allout = []
    for (unw, extra, tmo), hs in groups.items():
        cmd = base + ["--default-unwind", str(unw), "-j", str(min(8, max(1, len(hs)))), "--output-format", "terse"] + list(extra)
        for h in hs:
            cmd += ["--harness", h.name]
        cmds.append(" ".join(cmd))
        rc, out, wall = _run(cmd, extract.REPO, tmo * max(1, (len(hs) + 7) // 8) + 600, env)
        allout.append(out)
        if "error: could not compile" in out or re.search(r"^error(\[E\d+\])?:", out, re.M) and "Checking harness" not in out:
            tail = "\n".join([l for l in out.splitlines() if re.match(r"\s*(error|-->|\d+ \|)", l)][:40])
            ko.undecided.append("kani build failed (harness module does not compile against this tree):\n" + tail)
            continue
        if rc == -9:
            ko.undecided.append("kani wall-clock timeout for group %s" % [h.name for h in hs])
        blocks = parse_harness_blocks(out)
        for h in hs:
            short = h.name.split("::")[-1]
            blk = None
            for k, v in blocks.items():
                if k == h.name or k.endswith("::" + short) or k == short:
                    blk = v
            if blk is None:
                ko.undecided.append("kani: no result for harness %s (renamed or not compiled?)" % h.name)
                continue
            per_h[h.name] = (h, analyse_block(blk), blk)
    ko.cmd = " ;; ".join("cd %s && CARGO_TARGET_DIR=%s %s" % (extract.REPO, target, c) for c in cmds)
    bdir = os.path.join(os.environ.get("VERIF_OUT", ROOT), "build", prop)
    os.makedirs(bdir, exist_ok=True)
    open(os.path.join(bdir, "kani.log"), "w").write("\n".join(allout)[-3_000_000:])

    cov_h = []
    for name, (h, r, blk) in per_h.items():
        n_stub = len(re.findall(r"- Stub:", blk)) if h.expect_stubs else 0
        entry = {"harness": name, "kind": h.kind, "bound": h.bound, "status": r["status"], "checks": r["checks_total"],
                 "checks_failed": r["checks_failed"], "covers": "%d/%d" % (r["covers_sat"], r["covers_total"]),
                 "time_s": r["time_s"], "functions": h.functions, "note": h.note}
        cov_h.append(entry)
        ko.functions += h.functions
        if h.kind == "bounded":
            ko.bounded.append("%s: %s" % (name, h.bound))
        if r["status"] is None:
            ko.undecided.append("kani: harness %s produced no verdict (timeout / out of memory / crash)" % name)
            continue
        if h.kind == "bounded":
            # bounded stand-ins are reported, but never counted as discharged proof obligations
            ko.bounded_checks_total += r["checks_total"]
            ko.bounded_checks_ok += r["checks_total"] - r["checks_failed"]
        else:
            ko.checks_total += r["checks_total"]
            ko.checks_ok += r["checks_total"] - r["checks_failed"]
        if r["status"] == "SUCCESSFUL":
            # vacuity: all cover statements must be satisfied
            if r["covers_total"] != r["covers_sat"] or (h.covers and r["covers_total"] < h.covers):
                ko.undecided.append("vacuity guard: harness %s has %d/%d cover properties satisfied (expected >= %d)" % (name, r["covers_sat"], r["covers_total"], h.covers))
                continue
            ko.n_ok += 1
            ko.samples.append({"engine": "kani", "harness": name, "checks": r["checks_total"], "status": "SUCCESSFUL", "kind": h.kind})
        else:
            fcs = [c for c in r["failed_checks"]]
            only_unwind = fcs and all("unwinding assertion" in c["description"] for c in fcs)
            if only_unwind:
                ko.undecided.append("kani: harness %s: unwinding assertion failed (bound too small for this tree) -- not a verdict" % name)
                continue
            # ask CBMC for concrete values of this failing harness (one extra run, only on failure)
            obs = ["%s.kani.%s.%s" % (prop, name.split("::")[-1], re.sub(r"[^A-Za-z0-9]+", "_", c["description"]).strip("_")[:90]) for c in fcs]
            all_known = obs and all(o in known for o in obs)
            if r["playback"] is None and not all_known:
                pcmd = base + ["-Z", "concrete-playback", "--concrete-playback=print", "--default-unwind",
                               str(h.unwind if h.unwind is not None else default_unwind), "--output-format", "regular", "--harness", name] + list(h.extra)
                prc, pout, _ = _run(pcmd, extract.REPO, h.timeout + 600, env)
                for bname, btxt in parse_harness_blocks(pout).items():
                    ra = analyse_block(btxt)
                    if ra["playback"]:
                        r["playback"], r["concrete"] = ra["playback"], ra["concrete"]
            for c in fcs or [{"description": "verification failed", "file": "", "line": 0, "function": ""}]:
                if "unwinding assertion" in c["description"]:
                    continue
                ob = "%s.kani.%s.%s" % (prop, name.split("::")[-1], re.sub(r"[^A-Za-z0-9]+", "_", c["description"]).strip("_")[:90])
                ko.failed.append({"obligation": ob, "unit": name, "message": c["description"],
                                  "where": "%s:%s in %s" % (c["file"], c["line"], c["function"]),
                                  "rendered": blk[-6000:], "harness": name,
                                  "concrete": r["concrete"], "playback_test": r["playback"]})
    ko.coverage = {"harnesses": cov_h}
    ko.assumptions = list(getattr(spec, "KANI_ASSUMPTIONS", []))
    return ko
