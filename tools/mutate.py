#!/usr/bin/env python3
"""Mutation self-test: apply property-breaking edits to a scratch copy of /repo and require that
the named check reports VIOLATION, while the unmodified copy passes.  Used by the thorough tier and
by hand.   usage: tools/mutate.py [--engine verus|kani|all] [--only ID,...]"""
import argparse, json, os, shutil, subprocess, sys, time

ROOT = os.path.dirname(os.path.dirname(os.path.abspath(__file__)))
sys.path.insert(0, ROOT)
from mutations import MUTATIONS  # noqa
try:
    from mutations import HARMLESS  # noqa
except ImportError:
    HARMLESS = []

SCRATCH = "/scratch/mut"


def sh(cmd, **kw):
    return subprocess.run(cmd, shell=True, capture_output=True, text=True, **kw)


def run(engine="verus", only=(), prop=None, quiet=False, harmless=False):
    """harmless=True: run the HARMLESS list instead (behaviour-preserving edits); each must leave the check at exit 0."""
    only = set(only)
    res = []
    os.makedirs(SCRATCH, exist_ok=True)
    for mu in (HARMLESS if harmless else MUTATIONS):
        if only and mu["id"] not in only:
            continue
        if prop and mu["prop"] != prop:
            continue
        if engine != "all" and mu.get("engine", "verus") != engine:
            continue
        wd = os.path.join(SCRATCH, mu["id"])
        shutil.rmtree(wd, ignore_errors=True)
        if mu.get("engine", "verus") == "verus":
            os.makedirs(wd)
            sh("mkdir -p %s/crates/core %s/crates/backend && cp -r /repo/crates/core/src %s/crates/core/ && cp -r /repo/crates/backend/src %s/crates/backend/" % (wd, wd, wd, wd))
        else:
            sh("git -C /repo worktree add --detach %s HEAD" % wd)
        f = os.path.join(wd, mu["file"])
        src = open(f).read()
        if src.count(mu["old"]) != 1:
            res.append((mu["id"], "SKIP: pattern occurs %d times" % src.count(mu["old"])))
            if not quiet:
                print(res[-1])
            if mu.get("engine", "verus") == "verus":
                shutil.rmtree(wd, ignore_errors=True)
            else:
                sh("git -C /repo worktree remove --force %s" % wd)
            continue
        open(f, "w").write(src.replace(mu["old"], mu["new"]))
        env = dict(os.environ, VERIF_REPO=wd, VERIF_OUT=os.path.join(wd, "_out"))
        extra = "--no-kani" if mu.get("engine", "verus") == "verus" else ""
        t0 = time.time()
        p = subprocess.run("%s/check %s --tier quick %s" % (ROOT, mu["prop"], extra), shell=True, capture_output=True, text=True, env=env)
        out = p.stdout
        caught = p.returncode == 1 and "VIOLATION property=%s" % mu["prop"] in out
        named = [l for l in out.splitlines() if l.strip().startswith("failed obligation")]
        if harmless:
            # a behaviour-preserving edit must never raise an alarm; UNDECIDED (exit 2: lost anchor, construct outside
            # the subset) is allowed by the verdict rules and reported separately
            alarm = p.returncode == 1 or "VIOLATION" in out
            caught = not alarm
            verdict = "QUIET" if (p.returncode == 0 and not alarm) else ("UNDECIDED-no-alarm rc=%d" % p.returncode if not alarm else "FALSE-ALARM rc=%d" % p.returncode)
            res.append((mu["id"], verdict, named[:3], round(time.time() - t0, 1)))
        else:
            res.append((mu["id"], "CAUGHT" if caught else "MISSED rc=%d" % p.returncode, named[:3], round(time.time() - t0, 1)))
        if not quiet:
            print(res[-1])
            if not caught:
                print(out[-1500:])
        if mu.get("engine", "verus") == "verus":
            shutil.rmtree(wd, ignore_errors=True)
        else:
            sh("git -C /repo worktree remove --force %s" % wd)
            sh("rm -rf /scratch/kani-target-*")
    return res


def main():
    ap = argparse.ArgumentParser()
    ap.add_argument("--engine", default="verus")
    ap.add_argument("--only", default="")
    ap.add_argument("--prop", default=None)
    ap.add_argument("--harmless", action="store_true", help="run the behaviour-preserving edits: each must stay quiet")
    args = ap.parse_args()
    res = run(args.engine, [x for x in args.only.split(",") if x], args.prop, harmless=args.harmless)
    n_ok = sum(1 for r in res if r[1] in ("CAUGHT", "QUIET") or r[1].startswith("UNDECIDED-no-alarm"))
    n_skip = sum(1 for r in res if r[1].startswith("SKIP"))
    print("mutation self-test: %d/%d caught (%d skipped)" % (n_ok, len(res) - n_skip, n_skip))
    return 0 if n_ok == len(res) - n_skip else 1


if __name__ == "__main__":
    sys.exit(main())
