#!/bin/bash
# native_replay.sh <rev> <repo-file-to-append-to> <test-module-file> <cargo test filter> [cargo test target args, default: --lib]
# Builds a scratch worktree of /repo at <rev> under /scratch, appends the test text to the given
# file, runs the tests natively (real code, no verifier) and removes the worktree afterwards.
set -u
REV=$1; TARGET=$2; MOD=$3; FILTER=$4; shift 4
TARGS=("$@"); [ ${#TARGS[@]} -eq 0 ] && TARGS=(--lib)
W=/scratch/replay-$$
mkdir -p /scratch
git -C /repo worktree add --detach "$W" "$REV" >/dev/null 2>&1 || { echo "worktree failed"; exit 3; }
cat "$MOD" >> "$W/$TARGET"
( cd "$W" && CARGO_NET_OFFLINE=true CARGO_TARGET_DIR=/scratch/replay-target cargo test -p rustic_core "${TARGS[@]}" --offline "$FILTER" 2>&1 | grep -E "^test |test result|panicked|error(\[|:)" )
git -C /repo worktree remove --force "$W"
