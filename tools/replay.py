"""check <ID> --replay <file>: replay a recorded violation.

* Kani violation with a concrete playback test: the generated #[test] is appended (temporarily) to the
  harness module in /verif/kani and run NATIVELY with `cargo kani playback` -- i.e. the real code of
  /repo is executed on the verifier's concrete input; exit 1 if the assertion fires again.
* otherwise (Verus, or Kani without values): the obligation is re-checked on the current tree;
  exit 1 if it still fails.  The file names the obligation and carries the verifier's output.
"""
import glob
import json
import os
import re
import shutil
import subprocess

from . import extract

ROOT = os.path.dirname(os.path.dirname(os.path.abspath(__file__)))


def run(prop, spec, path):
    rec = json.load(open(path))
    print("replay of %s\n  obligation: %s\n  message: %s\n  where: %s" % (path, rec.get("obligation"), rec.get("message"), rec.get("where")))
    test = rec.get("playback_test")
    harness = rec.get("harness")
    if test and harness:
        short = harness.split("::")[-1]
        files = [f for f in glob.glob(os.path.join(ROOT, "kani", "*.rs")) if re.search(r"fn\s+%s\s*\(" % re.escape(short), open(f).read())]
        if len(files) == 1:
            f = files[0]
            bak = f + ".replay-bak"
            shutil.copy(f, bak)
            try:
                m = re.search(r"fn\s+(kani_concrete_playback_\w+)", test)
                tname = m.group(1)
                open(f, "a").write("\n// --- appended by `check --replay`, removed afterwards ---\n" + test + "\n")
                env = dict(os.environ, CARGO_NET_OFFLINE="true", CARGO_TARGET_DIR=os.path.join(ROOT, ".cache", "kani-playback"))
                cmd = ["cargo", "kani", "playback", "-Z", "concrete-playback", "-Z", "stubbing", "-Z", "function-contracts",
                       "-p", getattr(spec, "KANI_PACKAGE", "rustic_core"), "--", tname]
                print("  running natively: cd %s && %s" % (extract.REPO, " ".join(cmd)))
                p = subprocess.run(cmd, cwd=extract.REPO, env=env, capture_output=True, text=True)
                out = p.stdout + p.stderr
                tail = [l for l in out.splitlines() if re.search(r"^test |panicked|test result|assertion", l)]
                print("\n".join("    " + l for l in tail[-12:]))
                failed = re.search(r"test result: FAILED", out) is not None
                if failed:
                    print("VIOLATION property=%s replay=%s" % (prop, path))
                    return 1
                print("replay: the concrete input no longer violates the obligation on this tree")
                return 0
            finally:
                shutil.move(bak, f)
    print("  no concrete input recorded (no-failing-input-found); verifier output at the time:\n")
    print((rec.get("verifier_output") or "")[:4000])
    print("\n  re-checking the obligation on the current tree ...")
    p = subprocess.run([os.path.join(ROOT, "check"), prop], capture_output=True, text=True,
                       env=dict(os.environ, VERIF_OUT=os.environ.get("VERIF_OUT", "/tmp/verif-replay-out")))
    still = rec.get("obligation") in p.stdout
    print("  obligation %s" % ("STILL FAILS" if still else "is discharged now"))
    if still:
        print("VIOLATION property=%s replay=%s no-failing-input-found" % (prop, path))
        return 1
    return 0
