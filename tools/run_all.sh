#!/bin/bash
# runs every claimed check (tier from $1, default quick) sequentially and prints one line each
cd "$(dirname "$0")/.."
TIER=${1:-quick}
for p in $(python3 -c "import json;print(' '.join(c['property_id'] for c in json.load(open('MANIFEST.json'))['checks']))"); do
  s=$(date +%s)
  out=$(./check $p --tier $TIER 2>&1); rc=$?
  echo "$p rc=$rc $(( $(date +%s) - s ))s :: $(echo "$out" | tail -1 | cut -c1-220)"
done
