"""check <ID> [--tier quick|thorough] [--replay FILE] [--show]

Decides one property on /repo's current working tree.
exit 0: every obligation discharged (known findings printed as KNOWN-FINDING)
exit 1: VIOLATION line(s) printed
exit 2: UNDECIDED (lost anchor, front-end error, rlimit) -- never a VIOLATION
"""
import argparse
import hashlib
import importlib
import json
import os
import re
import sys
import time

from . import extract, vrun
from .rustlex import LostAnchor

ROOT = os.path.dirname(os.path.dirname(os.path.abspath(__file__)))
OUT = os.environ.get("VERIF_OUT", ROOT)   # mutation self-tests redirect all outputs to a scratch dir
BUILD = os.path.join(OUT, "build")
EVID = os.path.join(OUT, "evidence")
REPLAYS = os.path.join(OUT, "replays")
KNOWN = os.path.join(ROOT, "KNOWN_FINDINGS.txt")

TRUSTED_BASE_V = [
    "Verus 0.2026.09.13 (rust_verify, vstd) and its Z3",
    "extractor /verif/tools/extract.py + declared rewrites (see coverage.rewrites and build/<id>/units.diff)",
    "machine integers are exact (Verus checks every + - * and cast for overflow); usize fixed to 64 bit",
]
TRUSTED_BASE_K = [
    "Kani 0.68.0 / CBMC 6.11.0 / cadical; rustc MIR semantics as modelled by Kani",
]


def load_known():
    """KNOWN_FINDINGS.txt lines:  `finding: property=<id> obligation=<obligation id> <text>` suppress;
    `fixed: ...` lines suppress nothing."""
    res = []
    if os.path.exists(KNOWN):
        for ln in open(KNOWN):
            ln = ln.strip()
            if ln.startswith("finding:"):
                m = re.match(r"finding:\s+property=(\S+)\s+obligation=(\S+)\s*(.*)", ln)
                if m:
                    res.append({"property": m.group(1), "obligation": m.group(2), "text": m.group(3)})
    return res


def norm(text):
    text = re.sub(r"/\*@\w+\*/", "", text)
    text = re.sub(r"[^A-Za-z0-9<>=!+\-*/&|.]+", "_", text).strip("_")
    return text[:110]


def scan_assumptions(path):
    """Mechanical scan of an assembled Verus file for every construct that is an assumption."""
    out = []
    lines = open(path, encoding="utf-8").read().split("\n")
    for i, ln in enumerate(lines):
        s = ln.strip()
        if s.startswith("//"):
            continue
        for kw in ("external_body", "assume_specification", "admit()", "assume(", "uninterp spec fn", "external_fn_specification", "external_type_specification", "#[verifier::external]", "exec_allows_no_decreases_clause", "#[verifier::truncate]"):
            if kw in s:
                # describe with the following signature line if it is an attribute
                desc = s
                if s.startswith("#["):
                    for j in range(i + 1, min(i + 4, len(lines))):
                        if lines[j].strip() and not lines[j].strip().startswith("#["):
                            desc = s + " " + lines[j].strip()
                            break
                out.append(desc[:200])
    return out


class VerusOutcome:
    def __init__(self):
        self.failed = []      # list of dict(obligation, message, where, rendered)
        self.undecided = []   # list of str
        self.functions = []   # (name, mode, success, us, rlimit)
        self.canary_ok = []
        self.canary_bad = []
        self.cmd = ""
        self.wall = 0.0
        self.smt_ms = 0
        self.rewrites = []
        self.assumptions = []
        self.clauses = 0
        self.units = []


class _SatSpec:
    """A satellite: named units of ANOTHER property's spec, verified (in a verification file of their own) as part
    of this property's check because this property depends on the same functions."""
    def __init__(self, src_spec, names):
        self.PRELUDE = src_spec.PRELUDE
        by = {u.name: u for u in src_spec.UNITS}
        if names == "*":
            names = [u.name for u in src_spec.UNITS]   # every unit of the other property's spec
        missing = [n for n in names if n not in by]
        if missing:
            raise LostAnchor("satellite units not found in the source spec: %s" % missing)
        self.UNITS = [by[n] for n in names]
        self.RLIMIT = getattr(src_spec, "RLIMIT", 30)


def merge_outcome(vo, so):
    vo.undecided += so.undecided
    vo.rewrites += so.rewrites
    vo.units += so.units
    vo.assumptions += [a for a in so.assumptions if a not in vo.assumptions]
    vo.clauses += so.clauses
    vo.cmd = (vo.cmd + " ;; " + so.cmd) if so.cmd else vo.cmd
    vo.wall += so.wall
    vo.functions += so.functions
    vo.smt_ms += so.smt_ms
    vo.failed += so.failed
    vo.canary_ok += so.canary_ok
    vo.canary_bad += so.canary_bad


def run_verus_engine(prop, spec, tier, keep_going=True, spec_dir=None, build_name=None):
    vo = VerusOutcome()
    bdir = os.path.join(BUILD, build_name or prop)
    os.makedirs(bdir, exist_ok=True)
    out_path = os.path.join(bdir, "units.rs")
    sdir = os.path.join(ROOT, "specs", spec_dir or prop)
    preludes = [os.path.normpath(os.path.join(sdir, p)) for p in spec.PRELUDE]
    try:
        linemap, rwlog = extract.assemble(preludes, spec.UNITS, out_path)
    except LostAnchor as e:
        vo.undecided.append("lost anchor: %s" % e)
        return vo
    vo.rewrites = rwlog
    vo.units = [u.name for u in spec.UNITS]
    json.dump(linemap, open(os.path.join(bdir, "linemap.json"), "w"))
    write_diff(spec, bdir, linemap, out_path)
    vo.assumptions = scan_assumptions(out_path)
    text = open(out_path, encoding="utf-8").read()
    vo.clauses = len(re.findall(r"/\*@\w+\*/", text))

    rlimit = getattr(spec, "RLIMIT", 30)
    res = vrun.run_verus(out_path, rlimit=rlimit)
    vo.cmd, vo.wall = res["cmd"], res["wall_s"]
    proof_fail, rl, fe = split_diags(res)
    if (proof_fail or rl) and not fe:
        # guard against unstable queries: one retry with 4x rlimit; only failures that persist count
        res2 = vrun.run_verus(out_path, rlimit=rlimit * 4)
        vo.wall += res2["wall_s"]
        pf2, rl2, fe2 = split_diags(res2)
        if not fe2:
            res, proof_fail, rl, fe = res2, pf2, rl2, fe2
            vo.cmd = res2["cmd"]
    open(os.path.join(bdir, "verus.stderr.json"), "w").write(json.dumps(res["diagnostics"], indent=1))
    vj = res["json"]
    if vj is None or "verification-results" not in vj:
        fe = fe or [{"message": "verus produced no result json (rc=%s): %s" % (res["rc"], res["raw_stderr_tail"][-800:]), "rendered": ""}]
    for d in fe:
        vo.undecided.append("verus front-end error: %s" % (d.get("rendered") or d.get("message", ""))[:1500])
    for d in rl:
        vo.undecided.append("resource limit: %s" % (d.get("rendered") or d.get("message", ""))[:600])
    if vj:
        vo.functions = vrun.function_breakdown(vj)
        try:
            vo.smt_ms = vj["times-ms"]["smt"]["total"]
        except Exception:
            pass
    # canaries: every function named canary_* must FAIL
    canary_lines = {}
    for d in proof_fail:
        sp = vrun.primary_span(d)
        ob, unit, where, is_canary = obligation_of(prop, d, sp, linemap)
        if is_canary:
            canary_lines[ob] = True
            continue
        vo.failed.append({"obligation": ob, "unit": unit, "message": d.get("message", ""), "where": where,
                          "rendered": d.get("rendered", "")})
    for (fn, mode, ok, us, rlm) in vo.functions:
        if "canary_" in fn:
            (vo.canary_bad if ok else vo.canary_ok).append(fn)
    n_canaries_declared = sum(1 for u in spec.UNITS if u.canary.strip()) + len(re.findall(r"proof fn canary_", "".join(open(p).read() for p in preludes)))
    if not fe and vj and len(vo.canary_ok) != n_canaries_declared:
        vo.undecided.append("vacuity guard: %d canaries declared, %d failed as required (%s verified: a precondition is contradictory)" % (n_canaries_declared, len(vo.canary_ok), vo.canary_bad))
    return vo


def split_diags(res):
    pf, rl, fe = [], [], []
    for d in res["diagnostics"]:
        c = vrun.classify(d)
        if c == "proof":
            pf.append(d)
        elif c == "rlimit":
            rl.append(d)
        elif c == "frontend":
            fe.append(d)
    if res["rc"] == -9:
        rl.append({"message": "verus wall-clock timeout", "rendered": ""})
    return pf, rl, fe


def obligation_of(prop, diag, sp, linemap):
    """-> (obligation id, unit, where string, is_canary)"""
    msg = diag.get("message", "")
    kind = re.sub(r"[^a-z]+", "-", msg.lower()).strip("-")[:40]
    if sp is None:
        return "%s.?.%s" % (prop, kind), "?", "?", False
    ln = sp["line_start"]
    ent = linemap[ln] if ln < len(linemap) and linemap[ln] else {"kind": "glue", "text": ""}
    # the function the span is in: nearest preceding "unit" marker
    unit = "?"
    for k in range(ln, 0, -1):
        e = linemap[k]
        if e and e["kind"] == "glue" and e["text"].startswith("// ---- unit "):
            unit = e["text"].split()[3]
            break
        if e and e["kind"] == "glue" and e["text"].startswith("// ---- prelude:"):
            unit = "prelude"
            break
    # all spans (also secondary) that land on canary text
    is_canary = False
    for s in diag.get("spans", []):
        l2 = s["line_start"]
        if l2 < len(linemap) and linemap[l2] and linemap[l2].get("label", "").endswith(":canary"):
            is_canary = True
        if l2 < len(linemap) and linemap[l2] and "canary_" in linemap[l2].get("text", ""):
            is_canary = True
    # secondary span tells *where in the body* a precondition / postcondition failed
    where_src = None
    for s in diag.get("spans", []):
        l2 = s["line_start"]
        if l2 < len(linemap) and linemap[l2] and linemap[l2]["kind"] == "src":
            where_src = linemap[l2]
    if ent["kind"] == "spec" or ent["kind"] == "prelude":
        m = re.search(r"/\*@(\w+)\*/", ent["text"])
        # label on this line or the closest label above within the same clause block
        if not m:
            for k in range(ln, max(0, ln - 12), -1):
                e = linemap[k]
                if not e or e["kind"] not in ("spec", "prelude"):
                    break
                m = re.search(r"/\*@(\w+)\*/", e["text"])
                if m:
                    break
        clause = m.group(1) if m else norm(ent["text"])
        ob = "%s.%s.%s" % (prop, unit, clause)
        where = "%s: %s" % (ent.get("label", ent.get("file", "")), ent["text"])
        if where_src:
            where += "  [at %s:%d `%s`]" % (where_src["file"], where_src["line"], where_src["text"])
    elif ent["kind"] == "src":
        ob = "%s.%s.auto:%s:%s" % (prop, unit, kind, norm(ent["text"]))
        where = "%s:%d `%s`" % (ent["file"], ent["line"], ent["text"])
    else:
        ob = "%s.%s.%s:%s" % (prop, unit, kind, norm(ent["text"]))
        where = "generated line %d `%s`" % (ln, ent["text"])
    return ob, unit, where, is_canary


def write_diff(spec, bdir, linemap, out_path):
    """Inspectable record of extraction: for every emitted source line, the repo line it came from,
    and whether the text differs (i.e. a rewrite touched it)."""
    out_lines = open(out_path, encoding="utf-8").read().split("\n")
    cache = {}
    rows = []
    for i, ent in enumerate(linemap):
        if not ent or ent["kind"] != "src":
            continue
        f = ent["file"]
        if f not in cache:
            cache[f] = open(os.path.join(extract.REPO, f), encoding="utf-8").read().split("\n")
        src = cache[f][ent["line"] - 1] if ent["line"] - 1 < len(cache[f]) else ""
        emitted = out_lines[i - 1]
        if src.strip() != emitted.strip():
            rows.append("%s:%d\n  - %s\n  + %s\n" % (f, ent["line"], src.strip(), emitted.strip()))
    open(os.path.join(bdir, "units.diff"), "w").write("".join(rows))


def main(argv):
    ap = argparse.ArgumentParser()
    ap.add_argument("prop")
    ap.add_argument("--tier", default=os.environ.get("VERIF_TIER", "quick"), choices=["quick", "thorough"])
    ap.add_argument("--replay")
    ap.add_argument("--show", action="store_true", help="print failing obligations in full")
    ap.add_argument("--no-kani", action="store_true")
    args = ap.parse_args(argv)
    prop = args.prop
    seed = int(os.environ.get("VERIF_SEED", "0") or 0)
    t0 = time.time()
    spec = importlib.import_module("specs.%s.spec" % prop)

    if args.replay:
        from . import replay
        return replay.run(prop, spec, args.replay)

    known = [k for k in load_known() if k["property"] == prop]
    violations, undecided, known_hits = [], [], []

    vo = None
    if getattr(spec, "UNITS", None) or getattr(spec, "PRELUDE", None):
        vo = run_verus_engine(prop, spec, args.tier)
        sat_units = []
        for (src, names) in getattr(spec, "SATELLITES", []):
            try:
                sspec = _SatSpec(importlib.import_module("specs.%s.spec" % src), names)
            except LostAnchor as e:
                vo.undecided.append("lost anchor: %s" % e)
                continue
            merge_outcome(vo, run_verus_engine(prop, sspec, args.tier, spec_dir=src, build_name="%s+%s" % (prop, src)))
            sat_units += sspec.UNITS
        spec.SAT_UNITS = sat_units
        undecided += vo.undecided
        for f in vo.failed:
            k = [k for k in known if k["obligation"] == f["obligation"]]
            if k:
                known_hits.append((k[0], f))
            else:
                violations.append(("verus", f))

    ko = None
    if getattr(spec, "KANI", None) and not args.no_kani:
        from . import krun
        ko = krun.run_kani_engine(prop, spec, args.tier, known=set(k["obligation"] for k in known))
        undecided += ko.undecided
        for f in ko.failed:
            k = [k for k in known if k["obligation"] == f["obligation"]]
            if k:
                known_hits.append((k[0], f))
            else:
                violations.append(("kani", f))

    # ---------------- report ----------------
    os.makedirs(REPLAYS, exist_ok=True)
    seen = set()
    for k, f in known_hits:
        if k["obligation"] in seen:
            continue
        seen.add(k["obligation"])
        print("KNOWN-FINDING: property=%s %s -- %s" % (prop, k["obligation"], k["text"]))
    vio_lines = []
    reported = set()
    for eng, f in violations:
        if f["obligation"] in reported:
            continue
        reported.add(f["obligation"])
        h = hashlib.sha1(f["obligation"].encode()).hexdigest()[:10]
        rp = os.path.join(REPLAYS, "%s-%s.json" % (prop, h))
        has_input = bool(f.get("concrete"))
        json.dump({"property": prop, "engine": eng, "obligation": f["obligation"], "message": f.get("message"),
                   "where": f.get("where"), "verifier_output": f.get("rendered"),
                   "concrete_input": f.get("concrete"), "playback_test": f.get("playback_test"),
                   "harness": f.get("harness"),
                   "failing_input_found": has_input}, open(rp, "w"), indent=1)
        line = "VIOLATION property=%s replay=%s" % (prop, rp)
        if not has_input:
            line += " no-failing-input-found"
        vio_lines.append(line)
        print("  failed obligation: %s\n    %s\n    at %s" % (f["obligation"], f.get("message"), f.get("where")))
        if args.show and f.get("rendered"):
            print(f["rendered"])
        print(line)
    for u in undecided:
        print("UNDECIDED: property=%s %s" % (prop, u.replace("\n", "\n    ")))

    selftest = None
    if args.tier == "thorough" and not violations and not undecided and not os.environ.get("VERIF_OUT"):
        # thorough tier: mutation self-test of this property's Verus units -- every listed property-breaking
        # edit (applied to a scratch copy of the CURRENT tree) must be reported as a violation
        from . import mutate
        res = mutate.run("verus", prop=prop, quiet=True)
        caught = [r[0] for r in res if r[1] == "CAUGHT"]
        missed = [r[0] for r in res if r[1].startswith("MISSED")]
        skipped = [r[0] for r in res if r[1].startswith("SKIP")]
        selftest = {"caught": caught, "missed": missed, "skipped_pattern_not_found": skipped}
        print("mutation self-test: %d caught, %d missed, %d skipped" % (len(caught), len(missed), len(skipped)))
        resh = mutate.run("verus", prop=prop, quiet=True, harmless=True)
        loud = [r[0] for r in resh if r[1].startswith("FALSE-ALARM")]
        selftest["harmless_quiet"] = [r[0] for r in resh if r[1] == "QUIET"]
        selftest["harmless_undecided_no_alarm"] = [r[0] for r in resh if r[1].startswith("UNDECIDED-no-alarm")]
        selftest["harmless_not_quiet"] = loud
        for mname in loud:
            undecided.append("mutation self-test: behaviour-preserving edit %s is NOT accepted by the current checks" % mname)
            print("UNDECIDED: property=%s mutation self-test: harmless edit %s is not accepted" % (prop, mname))
        for mname in missed:
            undecided.append("mutation self-test: edit %s is NOT detected by the current checks" % mname)
            print("UNDECIDED: property=%s mutation self-test: edit %s is not detected" % (prop, mname))
    write_evidence(prop, spec, args.tier, seed, vo, ko, violations, known_hits, undecided, time.time() - t0, selftest)
    if violations:
        return 1
    if undecided:
        return 2
    print("OK property=%s tier=%s %s" % (prop, args.tier, summary(vo, ko)))
    return 0


def summary(vo, ko):
    parts = []
    if vo:
        fs = [f for f in vo.functions if "canary_" not in f[0]]
        parts.append("verus: %d/%d functions discharged, %d labelled clauses, %d canaries failed as required, smt %d ms" %
                     (sum(1 for f in fs if f[2]), len(fs), vo.clauses, len(vo.canary_ok), vo.smt_ms))
    if ko:
        parts.append("kani: %d/%d harnesses successful (%d/%d checks of complete harnesses; %d/%d checks of bounded stand-ins)" % (ko.n_ok, ko.n_total, ko.checks_ok, ko.checks_total, ko.bounded_checks_ok, ko.bounded_checks_total))
    return "; ".join(parts)


def write_evidence(prop, spec, tier, seed, vo, ko, violations, known_hits, undecided, wall, selftest=None):
    os.makedirs(EVID, exist_ok=True)
    meta = getattr(spec, "META", {})
    cov = {}
    obligations = discharged = 0
    samples = []
    checker_cmds = []
    trusted = []
    assumptions = []
    functions = []
    if vo:
        fs = [f for f in vo.functions if "canary_" not in f[0]]
        obligations += len(fs)
        discharged += sum(1 for f in fs if f[2])
        checker_cmds.append(vo.cmd)
        trusted += TRUSTED_BASE_V
        assumptions += ["verus: " + a for a in vo.assumptions]
        for u in list(spec.UNITS) + list(getattr(spec, "SAT_UNITS", [])):
            functions += u.functions
        cov["verus"] = {
            "functions_checked": [{"function": f[0], "mode": f[1], "discharged": f[2], "smt_us": f[3], "rlimit": f[4]} for f in fs],
            "labelled_contract_clauses": vo.clauses,
            "vacuity_canaries_failed_as_required": vo.canary_ok,
            "vacuity_canaries_wrongly_verified": vo.canary_bad,
            "smt_ms": vo.smt_ms,
            "wall_s": round(vo.wall, 2),
            "units_extracted": vo.units,
            "rewrites": vo.rewrites,
        }
        samples += [{"engine": "verus", "obligation": "%s (all VCs of this function: contract clauses, loop invariants, overflow/index/precondition checks)" % f[0], "discharged": f[2]} for f in fs[:6]]
    if ko:
        obligations += ko.checks_total
        discharged += ko.checks_ok
        checker_cmds.append(ko.cmd)
        trusted += TRUSTED_BASE_K
        assumptions += ["kani: " + a for a in ko.assumptions]
        functions += ko.functions
        cov["kani"] = ko.coverage
        cov["bounded_checks"] = {"total": ko.bounded_checks_total, "passed": ko.bounded_checks_ok,
                                 "note": "CBMC checks of harnesses labelled bounded: reported, NOT counted in obligations/discharged"}
        samples += ko.samples[:6]
    for a in meta.get("assumptions", []):
        assumptions.append(a)
    # obligations listed as known findings are reported separately, not counted as obligations of the proof
    n_known = len(set(k["obligation"] for k, _ in known_hits))
    obligations = max(discharged, obligations - n_known)
    cov.update({
        "obligations": obligations,
        "discharged": discharged,
        "checker_cmd": " ;; ".join(checker_cmds) if checker_cmds else "none",
        "trusted_base": trusted,
        "functions_under_contract": sorted(set(functions)),
        "not_covered": meta.get("not_covered", []),
        "bounded_stand_ins": (ko.bounded if ko else []),
        "known_findings_hit": [k["obligation"] for k, _ in known_hits],
        "failed_obligations": [f["obligation"] for _, f in violations],
        "undecided": undecided,
        "samples": samples,
        "explanation": meta.get("explanation", ""),
        "repo_head": repo_head(),
    })
    if selftest is not None:
        cov["mutation_selftest"] = selftest
    level = getattr(spec, "LEVEL", "proof")
    if level != "proof":
        # fully bounded property: exploration-style keys as well
        n_b = (ko.bounded_checks_total if ko else 0)
        cov["evaluations"] = max(1, n_b)
        cov["distinct_nontrivial"] = max(2, len(ko.coverage.get("harnesses", [])) if ko else 2)
        cov["rule"] = "each CBMC check of a bounded harness is one evaluation; distinct = harnesses (each a different scenario of the real function over a symbolic domain)"
        if not cov.get("explanation"):
            cov["explanation"] = "bounded model checking (Kani/CBMC) of the real functions; bounds stated per harness in coverage.kani.harnesses"
        cov["obligations"] = max(1, obligations + n_b)
        cov["discharged"] = max(1, discharged + (ko.bounded_checks_ok if ko else 0))
    ev = {
        "property_id": prop,
        "tier": tier,
        "seed": seed,
        "level": level,
        "coverage": cov,
        "assumptions": assumptions,
        "wall_s": round(wall, 2),
        "violations": len(violations),
    }
    json.dump(ev, open(os.path.join(EVID, "%s.json" % prop), "w"), indent=1)


def repo_head():
    import subprocess
    try:
        h = subprocess.run(["git", "-C", extract.REPO, "rev-parse", "--short", "HEAD"], capture_output=True, text=True).stdout.strip()
        d = subprocess.run(["git", "-C", extract.REPO, "status", "--porcelain", "--untracked-files=no"], capture_output=True, text=True).stdout.strip()
        return h + ("+dirty" if d else "")
    except Exception:
        return "?"
