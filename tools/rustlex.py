"""Minimal Rust lexing helpers for the extractor: masking of comments / string /
char literals, brace matching, item location.  Pure python, no dependencies.

The extractor never re-prints code from a syntax tree: it slices the original
source text, so whatever it emits is byte-for-byte the repository's text except
for the declared rewrites.
"""
import re


class LostAnchor(Exception):
    """An anchor (item header, rewrite pattern, hint statement) was not found
    the expected number of times.  The runner turns this into exit 2
    (UNDECIDED), never into a VIOLATION."""


def mask(src: str) -> str:
    """Return a string of the same length as `src` in which the *contents* of
    comments, string literals and char literals are replaced by spaces
    (newlines are kept).  Braces / keywords found in the masked text are real
    code tokens."""
    out = list(src)
    n = len(src)
    i = 0

    def blank(a, b):
        for k in range(a, b):
            if out[k] != "\n":
                out[k] = " "

    while i < n:
        c = src[i]
        if c == "/" and i + 1 < n and src[i + 1] == "/":
            j = src.find("\n", i)
            if j < 0:
                j = n
            blank(i, j)
            i = j
        elif c == "/" and i + 1 < n and src[i + 1] == "*":
            depth = 1
            j = i + 2
            while j < n and depth > 0:
                if src.startswith("/*", j):
                    depth += 1
                    j += 2
                elif src.startswith("*/", j):
                    depth -= 1
                    j += 2
                else:
                    j += 1
            blank(i, j)
            i = j
        elif c == '"' or (c in "br" and _is_str_start(src, i)):
            j = _skip_string(src, i)
            # keep the delimiters, blank the inside
            blank(i + 1, j - 1)
            i = j
        elif c == "'":
            j = _char_lit_end(src, i)
            if j is not None:
                blank(i + 1, j - 1)
                i = j
            else:
                i += 1  # lifetime
        else:
            i += 1
    return "".join(out)


def _is_str_start(src, i):
    # b"..", r"..", r#".."#, br".."  (identifier boundary on the left)
    if i > 0 and (src[i - 1].isalnum() or src[i - 1] == "_"):
        return False
    m = re.match(r'(b?r#*"|b")', src[i:i + 12])
    return m is not None


def _skip_string(src, i):
    n = len(src)
    m = re.match(r'(b?)(r?)(#*)"', src[i:i + 12])
    raw = m.group(2) == "r"
    hashes = m.group(3)
    j = i + m.end()
    if raw:
        end = '"' + hashes
        k = src.find(end, j)
        return n if k < 0 else k + len(end)
    while j < n:
        if src[j] == "\\":
            j += 2
        elif src[j] == '"':
            return j + 1
        else:
            j += 1
    return n


def _char_lit_end(src, i):
    # src[i] == "'"; returns index after closing quote if this is a char literal
    n = len(src)
    if i + 1 >= n:
        return None
    if src[i + 1] == "\\":
        j = i + 2
        while j < n and src[j] != "'":
            j += 1
        return j + 1 if j < n else None
    if i + 2 < n and src[i + 2] == "'" and src[i + 1] != "'":
        return i + 3
    return None


def match_brace(masked: str, open_idx: int) -> int:
    """Index of the brace matching masked[open_idx] (one of '{[(')."""
    pairs = {"{": "}", "(": ")", "[": "]"}
    o = masked[open_idx]
    c = pairs[o]
    depth = 0
    for k in range(open_idx, len(masked)):
        ch = masked[k]
        if ch == o:
            depth += 1
        elif ch == c:
            depth -= 1
            if depth == 0:
                return k
    raise LostAnchor("unbalanced %s at offset %d" % (o, open_idx))


def find_unique(hay: str, needle: str, what: str, lo: int = 0, hi: int = None) -> int:
    hi = len(hay) if hi is None else hi
    k = hay.find(needle, lo, hi)
    if k < 0:
        raise LostAnchor("%s: anchor not found: %r" % (what, needle))
    k2 = hay.find(needle, k + 1, hi)
    if k2 >= 0:
        raise LostAnchor("%s: anchor ambiguous (>=2 matches): %r" % (what, needle))
    return k


def line_of(src: str, idx: int) -> int:
    return src.count("\n", 0, idx) + 1


def body_open(masked: str, start: int) -> int:
    """Index of the '{' that opens the body of the item whose header starts at
    `start` (skips parenthesised / bracketed groups; stops at ';' for bodiless
    items)."""
    k = start
    n = len(masked)
    while k < n:
        ch = masked[k]
        if ch in "([":
            k = match_brace(masked, k) + 1
        elif ch == "{":
            return k
        elif ch == ";":
            raise LostAnchor("item at offset %d has no body" % start)
        else:
            k += 1
    raise LostAnchor("no body found for item at offset %d" % start)


def locate_item(src: str, anchor: str, within: str = None, what: str = ""):
    """Locate an item by its header text.  Returns (hdr_start, body_open,
    body_close) as offsets into src; src[hdr_start:body_open] is the header
    (from the anchor's first char), src[body_open:body_close+1] the braced body.
    `within` optionally names the header of an enclosing item (e.g. an impl)."""
    m = mask(src)
    lo, hi = 0, len(src)
    if within is not None:
        w = find_unique(m, within, what + " (within)")
        wo = body_open(m, w)
        wc = match_brace(m, wo)
        lo, hi = wo, wc
    a = find_unique(m, anchor, what, lo, hi)
    bo = body_open(m, a)
    bc = match_brace(m, bo)
    return a, bo, bc


_LOOP_RE = re.compile(r"(?<![A-Za-z0-9_])(loop|while|for)(?![A-Za-z0-9_])")


def loop_headers(masked_body: str):
    """Yield (kw_start, brace_idx) for every loop in the masked body text, in
    source order.  `for` in `impl ... for` / HRTB does not occur inside
    function bodies of the units we extract; a `for` without a following `in`
    before its brace is skipped."""
    res = []
    for mm in _LOOP_RE.finditer(masked_body):
        kw = mm.group(1)
        k = mm.end()
        # find the opening brace of the loop body, skipping (..) and [..] groups
        # and closure / struct-literal-free headers
        try:
            j = k
            n = len(masked_body)
            while j < n:
                ch = masked_body[j]
                if ch in "([":
                    j = match_brace(masked_body, j) + 1
                elif ch == "{":
                    break
                elif ch == ";":
                    j = -1
                    break
                else:
                    j += 1
            if j < 0 or j >= n:
                continue
        except LostAnchor:
            continue
        if kw == "for" and not re.search(r"(?<![A-Za-z0-9_])in(?![A-Za-z0-9_])", masked_body[k:j]):
            continue
        res.append((mm.start(), j))
    return res
