#!/bin/bash
# stability.sh [props...]: re-run the Verus part of each check under several SMT random seeds.  A proof that only
# passes under the default seed is brittle (it would turn an unrelated edit into a false alarm): every run must be OK.
cd /verif
PROPS=${@:-C01 C02 C03 C04 C05 C06 C07 C08 C09 C11 C12 C14 C15 C16 C17 C18 C19}
for p in $PROPS; do
  for seed in 3 17 101; do
    r=$(VERIF_OUT=/scratch/stab-out VERIF_VERUS_ARGS="--smt-option smt.random_seed=$seed --smt-option sat.random_seed=$seed" ./check $p --no-kani 2>&1 | grep -E "^OK|VIOLATION|UNDECIDED|failed obligation" | head -4 | cut -c1-200 | paste -sd'|')
    echo "$p seed=$seed: $r"
  done
done
rm -rf /scratch/stab-out
