#!/bin/bash
# try_seeded.sh <seeded-dir-name> <PROP> [check args]: apply a seeded change to /repo, run the property's check
# (outputs redirected to /scratch/try-<id>), then restore /repo.  Never commits anything to /repo.
set -u
ID=$1; PROP=$2; shift 2
D=/verif/seeded/$ID
[ -z "$(git -C /repo status --porcelain --untracked-files=no)" ] || { echo "/repo not clean"; exit 3; }
git -C /repo apply "$D/patch.diff" || { echo "patch does not apply"; exit 3; }
export VERIF_OUT=/scratch/try-$ID
mkdir -p $VERIF_OUT
cd /verif && ./check $PROP "$@" 2>&1 | tee $VERIF_OUT/check.log | grep -v "^ *|\|^    |" | tail -25
rc=${PIPESTATUS[0]}
git -C /repo checkout -- .
echo "rc=$rc"
