#!/bin/bash
# try_seeded_wt.sh <seeded-dir-name> <PROP> [check args]: like try_seeded.sh, but leaves /repo untouched: the seeded change is
# applied to a scratch worktree of /repo's HEAD and the check is pointed at it (VERIF_REPO); outputs go to /scratch/try-<id>.
set -u
ID=$1; PROP=$2; shift 2
D=/verif/seeded/$ID
W=/scratch/trywt-$ID
git -C /repo worktree add --detach "$W" HEAD >/dev/null 2>&1 || { echo "worktree failed"; exit 3; }
git -C "$W" apply "$D/patch.diff" || { echo "patch does not apply"; git -C /repo worktree remove --force "$W"; exit 3; }
export VERIF_OUT=/scratch/try-$ID VERIF_REPO=$W
mkdir -p $VERIF_OUT
cd /verif && ./check $PROP "$@" 2>&1 | tee $VERIF_OUT/check.log | grep -v "^ *|\|^    |" | tail -25
rc=${PIPESTATUS[0]}
git -C /repo worktree remove --force "$W"
echo "rc=$rc"
