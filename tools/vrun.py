"""Run Verus on an assembled file and classify what it reports."""
import json
import os
import re
import subprocess
import time

# messages that are *proof failures* (an obligation was generated and the
# solver could not discharge it).  Everything else at level=error is a
# front-end / tool error and makes the run UNDECIDED.
PROOF_FAIL_PATTERNS = [
    r"postcondition not satisfied",
    r"precondition not satisfied",
    r"possible arithmetic underflow/overflow",
    r"possible division by zero",
    r"invariant not satisfied",
    r"assertion failed",
    r"assertion failure",
    r"decreases not satisfied",
    r"could not prove termination",
    r"possible bit shift underflow/overflow",
    r"index out of bounds",
    r"unreachable",
    r"cannot prove that",
    r"unable to prove post-?condition of closure",
    r"failed to prove",
    r"not satisfied",
    r"possible .*overflow",
    r"constructed value may fail to meet its declared type invariant",
    r"may fail",
]
RLIMIT_PATTERNS = [r"[Rr]esource limit", r"rlimit", r"timed? ?out"]

VERUS = os.environ.get("VERIF_VERUS", "verus")


def run_verus(path, rlimit=30, extra_args=(), num_threads=8, timeout=900):
    cmd = [VERUS, path, "--output-json", "--time", "--rlimit", str(rlimit),
           "--multiple-errors", "20", "--num-threads", str(num_threads),
           "--no-report-long-running"] + list(extra_args) + os.environ.get("VERIF_VERUS_ARGS", "").split() + ["--", "--error-format=json", "--edition=2024"]
    t0 = time.time()
    try:
        p = subprocess.run(cmd, cwd=os.path.dirname(path), capture_output=True, text=True, timeout=timeout)
        out, err, rc = p.stdout, p.stderr, p.returncode
    except subprocess.TimeoutExpired as e:
        out = e.stdout.decode() if isinstance(e.stdout, bytes) else (e.stdout or "")
        err = e.stderr.decode() if isinstance(e.stderr, bytes) else (e.stderr or "")
        rc = -9
    wall = time.time() - t0
    res = {"cmd": " ".join(cmd), "rc": rc, "wall_s": wall, "json": None, "diagnostics": [],
           "raw_stderr_tail": err[-4000:]}
    # stdout: one JSON object (may be preceded by noise)
    k = out.find("{")
    if k >= 0:
        try:
            res["json"] = json.loads(out[k:])
        except Exception:
            res["json"] = None
    for ln in err.splitlines():
        ln = ln.strip()
        if not ln.startswith("{"):
            continue
        try:
            d = json.loads(ln)
        except Exception:
            continue
        if d.get("$message_type") == "diagnostic" or "message" in d:
            res["diagnostics"].append(d)
    return res


def classify(diag):
    """-> 'proof' | 'rlimit' | 'frontend' | 'ignore'"""
    lvl = diag.get("level")
    msg = diag.get("message", "")
    if lvl not in ("error",):
        # notes about rlimit come as notes/warnings in some versions
        if any(re.search(p, msg) for p in RLIMIT_PATTERNS):
            return "rlimit"
        return "ignore"
    if msg.startswith("aborting due to"):
        return "ignore"
    if any(re.search(p, msg) for p in RLIMIT_PATTERNS):
        return "rlimit"
    if diag.get("code"):
        return "frontend"
    if any(re.search(p, msg) for p in PROOF_FAIL_PATTERNS):
        return "proof"
    return "frontend"


def primary_span(diag):
    sp = [s for s in diag.get("spans", []) if s.get("is_primary")]
    if sp:
        return sp[0]
    return diag["spans"][0] if diag.get("spans") else None


def function_breakdown(vjson):
    """[(function, mode, success, time_us, rlimit)] from the --time json."""
    res = []
    try:
        for m in vjson["times-ms"]["smt"]["smt-run-module-times"]:
            for f in m.get("function-breakdown", []):
                res.append((f["function"], f.get("mode:", f.get("mode", "")), bool(f["success"]),
                            f.get("time-micros", 0), f.get("rlimit", 0)))
    except Exception:
        pass
    return res
